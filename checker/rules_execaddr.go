package main

// R-EXECADDR (C09, C10, C11, C12): no working storage in the Executor.
//
// The evaluation functions are re-entrant: an operand, a filter or a
// subscript evaluates nested paths through the same Executor while the outer
// activation is still using its locals. R-STATE accounts for every direct
// store to an Executor field (saved and restored, counter, initialisation).
// This rule closes the other door: memory inside the Executor modified through
// the address of a field — a method with a pointer receiver called on a field,
// a field's address handed to a function that writes through it, an element
// of an array or slice held in a field. During evaluation that is shared
// scratch space: a nested activation overwrites what the outer one is reading.

import (
	"fmt"
	"go/token"
	"go/types"

	"golang.org/x/tools/go/ssa"
)

// writesThroughParam: fn modifies memory reachable from its idx-th parameter
// by address arithmetic (fields, elements), directly or by handing such an
// address on; stdlib callees receiving the address count as writers unless
// they are known readers.
func (p *Prog) writesThroughParam(fn *ssa.Function, idx int, depth int) string {
	if fn == nil || fn.Blocks == nil || idx >= len(fn.Params) {
		return "a function whose body is not available"
	}
	if depth > 4 {
		return "a call chain deeper than the inlining bound"
	}
	derived := map[ssa.Value]bool{fn.Params[idx]: true}
	// addresses and slices derived from the parameter
	for changed := true; changed; {
		changed = false
		for _, b := range fn.Blocks {
			for _, ins := range b.Instrs {
				v, ok := ins.(ssa.Value)
				if !ok || derived[v] {
					continue
				}
				switch x := ins.(type) {
				case *ssa.FieldAddr:
					if derived[x.X] {
						derived[v], changed = true, true
					}
				case *ssa.IndexAddr:
					if derived[x.X] {
						derived[v], changed = true, true
					}
				case *ssa.Slice:
					if derived[x.X] {
						derived[v], changed = true, true
					}
				case *ssa.UnOp:
					// a slice or map header loaded from the parameter's memory
					// still designates the parameter's storage
					if x.Op == token.MUL && derived[x.X] {
						switch x.Type().Underlying().(type) {
						case *types.Slice, *types.Map, *types.Pointer:
							derived[v], changed = true, true
						}
					}
				case *ssa.Phi:
					for _, e := range x.Edges {
						if derived[e] {
							derived[v], changed = true, true
						}
					}
				}
			}
		}
	}
	for _, w := range writesOf(fn) {
		if derived[w.Base] {
			return w.Kind + " at " + p.pos(w.Instr.Pos())
		}
	}
	for _, b := range fn.Blocks {
		for _, ins := range b.Instrs {
			ci, ok := ins.(ssa.CallInstruction)
			if !ok {
				continue
			}
			c := ci.Common()
			for i, a := range c.Args {
				if !derived[a] {
					continue
				}
				if _, isB := c.Value.(*ssa.Builtin); isB {
					continue // len, cap, … (the writing builtins are in writesOf)
				}
				sc := c.StaticCallee()
				if sc == nil {
					return "a dynamic call receiving the address at " + p.pos(ins.Pos())
				}
				if !inModule(sc) {
					continue // standard-library readers; the in-place ones are in writesOf
				}
				if why := p.writesThroughParam(sc, i, depth+1); why != "" {
					return why
				}
			}
		}
	}
	return ""
}

var execAddrExceptions = map[string]string{}

var ruleExecAddr = &Rule{
	Name: "R-EXECADDR", NeedSSA: true,
	Doc: "outside the constructor and the option closures, memory inside the Executor is modified only by direct stores to its fields (which R-STATE requires to be saved and restored): no function of the executor hands the address of an Executor field (or of an element or sub-field of one) to a method or function that writes through it, stores through an element of a field, or lets such an address escape; re-entrant evaluation functions therefore share no scratch storage",
	Run: func(p *Prog) *RuleOut {
		out := newOut("R-EXECADDR")
		naddr := 0
		for _, fn := range p.execFuncs() {
			if fn.Parent() != nil && isOptionCtor(p, fn.Parent()) {
				continue
			}
			ord := ordinals{}
			for _, b := range fn.Blocks {
				for _, ins := range b.Instrs {
					fa, ok := ins.(*ssa.FieldAddr)
					if !ok {
						continue
					}
					f, recv := p.execFieldOf(fa)
					if f == nil || !p.wholeField(fa) {
						continue
					}
					if _, fresh := recv.(*ssa.Alloc); fresh {
						continue // the constructor
					}
					naddr++
					// follow the address through sub-fields and elements
					var uses func(v ssa.Value, whole bool, depth int) string
					uses = func(v ssa.Value, whole bool, depth int) string {
						if depth > 6 {
							return ""
						}
						for _, r := range *v.Referrers() {
							switch x := r.(type) {
							case *ssa.UnOp:
								if x.Op == token.MUL {
									// a loaded slice/map/pointer header: its elements are Executor memory too
									switch x.Type().Underlying().(type) {
									case *types.Slice, *types.Map:
										if why := uses(x, false, depth+1); why != "" {
											return why
										}
									}
								}
							case *ssa.Store:
								if x.Addr == v && !whole {
									if f2, _ := p.execFieldOf(x.Addr); f2 != nil {
										continue // a store to a sub-field: a direct store, R-STATE's business
									}
									return "a store through an element of the field at " + p.pos(x.Pos())
								}
								if x.Val == v {
									return "the address is stored at " + p.pos(x.Pos())
								}
							case *ssa.FieldAddr:
								if why := uses(x, false, depth+1); why != "" {
									return why
								}
							case *ssa.IndexAddr:
								if why := uses(x, false, depth+1); why != "" {
									return why
								}
							case *ssa.Slice:
								if why := uses(x, false, depth+1); why != "" {
									return why
								}
							case *ssa.MapUpdate:
								if x.Map == v {
									return "a map held in the field is updated at " + p.pos(x.Pos())
								}
							case ssa.CallInstruction:
								c := x.Common()
								if bi, isB := c.Value.(*ssa.Builtin); isB {
									switch bi.Name() {
									case "clear", "copy", "delete":
										if len(c.Args) > 0 && c.Args[0] == v {
											return bi.Name() + " at " + p.pos(x.Pos())
										}
									}
									continue
								}
								if _, isPtr := v.Type().Underlying().(*types.Pointer); !isPtr {
									if _, isSl := v.Type().Underlying().(*types.Slice); !isSl {
										if _, isMap := v.Type().Underlying().(*types.Map); !isMap {
											continue
										}
									}
								}
								for i, a := range c.Args {
									if a != v {
										continue
									}
									sc := c.StaticCallee()
									if sc == nil {
										return "a dynamic call receives the address at " + p.pos(x.Pos())
									}
									if !inModule(sc) {
										q := calleeQualified(c)
										if inPlaceStdlib[q] {
											return q + " at " + p.pos(x.Pos())
										}
										if pk := fnPkg(sc); pk != nil && pk.Path() == "sync/atomic" {
											return "an atomic update at " + p.pos(x.Pos())
										}
										continue
									}
									if why := p.writesThroughParam(sc, i, 0); why != "" {
										return calleeName(c) + " (called at " + p.pos(x.Pos()) + ") writes through it: " + why
									}
								}
							case *ssa.MakeClosure, *ssa.Return, *ssa.MakeInterface, *ssa.Phi:
								if _, isPtr := v.Type().Underlying().(*types.Pointer); isPtr {
									return fmt.Sprintf("the address escapes (%T) at %s", r, p.pos(r.Pos()))
								}
							}
						}
						return ""
					}
					why := uses(fa, true, 0)
					if why == "" {
						continue
					}
					key := fmt.Sprintf("%s: Executor.%s through its address #%d", fnName(fn), f.Name(), ord.next(f.Name()))
					if ex, ok := execAddrExceptions[fnName(fn)+":"+f.Name()]; ok {
						out.excepted(key, p.pos(fa.Pos()), fnName(fn), ex)
						continue
					}
					out.viol(key, p.pos(fa.Pos()), fnName(fn), "memory inside the Executor is modified through the address of a field ("+why+"): re-entrant evaluation functions then share scratch storage, and a nested evaluation overwrites what the outer one is using")
				}
			}
		}
		out.Counts["executor_field_addresses"] = naddr
		out.Floors["executor_field_addresses"] = 10
		if len(out.Obs) == 0 {
			out.ok("no Executor memory is modified through a field's address", "path/exec", "", fmt.Sprintf("%d field addresses examined: loads and whole-field stores only", naddr))
		}
		return out
	},
}

func init() { register(ruleExecAddr) }

// R-COLLMONO (C01, C07, C09): a result list only grows.
//
// Every step appends the items it selects to the list it was handed; the
// concatenation property (C09) and the order of results rest on nobody taking
// items back. In package exec the backing field of the list type is therefore
// stored only by the constructor (a fresh list) and by list methods that store
// append(<the same field>, …): no truncation, no re-slicing, no replacement
// from outside the type.
var ruleCollMono = &Rule{
	Name: "R-COLLMONO", NeedSSA: true,
	Doc: "in package exec every store to the slice field of the result-list type is either an initialisation of a freshly allocated list or, inside a method of the list type, the result of the builtin append applied to a load of that same field: lists are never truncated, re-sliced or replaced while an evaluation holds them (ranging over a tail of the list while appending to its head overwrites unread items)",
	Run: func(p *Prog) *RuleOut {
		out := newOut("R-COLLMONO")
		n := 0
		ord := ordinals{}
		for _, fn := range p.execFuncs() {
			for _, b := range fn.Blocks {
				for _, ins := range b.Instrs {
					st, ok := ins.(*ssa.Store)
					if !ok {
						continue
					}
					fa, ok := st.Addr.(*ssa.FieldAddr)
					if !ok {
						continue
					}
					pt, ok := fa.X.Type().Underlying().(*types.Pointer)
					if !ok || pt.Elem() != types.Type(p.A.ValueList) {
						continue
					}
					if _, isSl := st.Val.Type().Underlying().(*types.Slice); !isSl {
						continue
					}
					n++
					key := fmt.Sprintf("%s stores the result list's slice #%d", fnName(fn), ord.next(fnName(fn)))
					if _, fresh := fa.X.(*ssa.Alloc); fresh {
						out.ok(key, p.pos(st.Pos()), fnName(fn), "initialises a freshly allocated list")
						continue
					}
					good := false
					if c, ok := st.Val.(*ssa.Call); ok {
						if bi, ok := c.Call.Value.(*ssa.Builtin); ok && bi.Name() == "append" && len(c.Call.Args) > 0 {
							if ld, ok := c.Call.Args[0].(*ssa.UnOp); ok && ld.Op == token.MUL {
								if fa2, ok := ld.X.(*ssa.FieldAddr); ok && fa2.X == fa.X && fa2.Field == fa.Field {
									good = fn.Signature.Recv() != nil && namedOf(fn.Signature.Recv().Type()) == p.A.ValueList
								}
							}
						}
					}
					if good {
						out.ok(key, p.pos(st.Pos()), fnName(fn), "append to the list's own slice, inside a method of the list type")
					} else {
						out.viol(key, p.pos(st.Pos()), fnName(fn), "the slice of a result list is replaced by something other than append(its own slice, …) in a list method: a list that an evaluation holds can shrink or be re-sliced, so items already selected are lost or overwritten while later ones are read")
					}
				}
			}
		}
		out.Counts["stores_to_the_list_slice"] = n
		out.Floors["stores_to_the_list_slice"] = 2
		return out
	},
}

func init() { register(ruleCollMono) }
