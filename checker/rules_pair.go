package main

// E5: pair flow for functions returning (resultStatus|predOutcome|T, error).

import (
	"fmt"
	"go/token"
	"go/types"
	"sort"
	"strings"

	"golang.org/x/tools/go/ssa"
)

func lastIsError(sig *types.Signature) bool {
	n := sig.Results().Len()
	return n > 0 && isErrorType(sig.Results().At(n-1).Type())
}

// pairKind: "status", "pred" or "" for the first result type of a signature
// returning (X, error).
func (p *Prog) pairKind(sig *types.Signature) string {
	if sig.Results().Len() != 2 || !lastIsError(sig) {
		return ""
	}
	t := sig.Results().At(0).Type()
	switch {
	case types.Identical(t, p.A.StatusType):
		return "status"
	case types.Identical(t, p.A.PredType):
		return "pred"
	}
	return ""
}

// statusAmongResults: fn (a module function whose last result is an error and
// which has more than two results) carries a status or outcome in the result
// before the error, and on every return either the error is the nil constant
// or that result is the failed / unknown constant. Returns the index and kind.
func (p *Prog) statusAmongResults(fn *ssa.Function) (int, string) {
	if fn == nil || fn.Blocks == nil || !inModule(fn) || fn.Signature.Results().Len() < 3 || !lastIsError(fn.Signature) {
		return 0, ""
	}
	n := fn.Signature.Results().Len()
	j := n - 2
	kind := ""
	switch t := fn.Signature.Results().At(j).Type(); {
	case types.Identical(t, p.A.StatusType):
		kind = "status"
	case types.Identical(t, p.A.PredType):
		kind = "pred"
	default:
		return 0, ""
	}
	bad := p.badConstFor(kind)
	rets := expandedReturns(fn)
	for _, r := range rets {
		if isNilConst(stripConv(r.Results[n-1])) {
			continue
		}
		if k, ok := constInt(stripConv(r.Results[j])); ok && k == bad {
			continue
		}
		// status and error are the two results of one call of a pair function,
		// which sets them together (R-PAIR-P)
		if cs, is := callOf(r.Results[j]); cs != nil && is == 0 {
			if ce, ie := callOf(r.Results[n-1]); ce == cs && ie == 1 && p.pairKind(calleeSig(cs)) == kind {
				continue
			}
		}
		// the status is known to be the bad one on this branch
		known := false
		for _, f := range r.Facts {
			if bo, ok := f.Cond.(*ssa.BinOp); ok && (bo.Op == token.EQL) == f.Truth && (bo.Op == token.EQL || bo.Op == token.NEQ) && sameValue(bo.X, r.Results[j]) {
				if k, ok := constInt(bo.Y); ok && k == bad {
					known = true
				}
			}
		}
		if !known {
			return 0, ""
		}
	}
	if len(rets) == 0 {
		return 0, ""
	}
	return j, kind
}

// onlyForeignErrors: every error fn can return is nil or comes from outside
// the module (classes of E3), and fn takes no context.
func (p *Prog) onlyForeignErrors(fn *ssa.Function) bool {
	e := p.errors()
	rs := e.ret[fn]
	if len(rs) == 0 {
		return false
	}
	for _, q := range fn.Params {
		if isContextType(q.Type()) {
			return false
		}
	}
	last := rs[len(rs)-1]
	if len(last) == 0 {
		return false
	}
	for s := range last {
		if s.Class != "Foreign" && s.Class != "nil" {
			return false
		}
	}
	return true
}

func constOf(c *types.Const) int64 {
	v, _ := constInt(ssa.NewConst(c.Val(), c.Type()))
	return v
}

// isFailedMethod: fn is a method of the status type whose body is
// `return s == failed`.
func (p *Prog) isFailedMethod(fn *ssa.Function) bool {
	if fn == nil || fn.Signature.Recv() == nil || !types.Identical(fn.Signature.Recv().Type(), p.A.StatusType) {
		return false
	}
	if len(fn.Blocks) != 1 {
		return false
	}
	r, ok := fn.Blocks[0].Instrs[len(fn.Blocks[0].Instrs)-1].(*ssa.Return)
	if !ok || len(r.Results) != 1 {
		return false
	}
	bo, ok := r.Results[0].(*ssa.BinOp)
	if !ok || bo.Op != token.EQL {
		return false
	}
	k, ok := constInt(bo.Y)
	return ok && bo.X == fn.Params[0] && k == constOf(p.A.StatusFailed)
}

// statusFact: what the facts say about status/outcome value st relative to
// the distinguished constant bad (failed / unknown):
// +1 known equal, -1 known different, 0 unknown.
func (p *Prog) statusFact(fs []Fact, st ssa.Value, bad int64) int {
	res := 0
	for _, f := range fs {
		switch c := f.Cond.(type) {
		case *ssa.BinOp:
			if c.Op != token.EQL && c.Op != token.NEQ {
				continue
			}
			var other ssa.Value
			switch {
			case sameValue(c.X, st):
				other = c.Y
			case sameValue(c.Y, st):
				other = c.X
			default:
				continue
			}
			k, ok := constInt(other)
			if !ok {
				// compared with a parameter every call site fills with a
				// constant (`decisive predOutcome`): equal to it, the status is
				// one of those constants
				if ks := p.paramConsts(other); len(ks) > 0 && (c.Op == token.EQL) == f.Truth {
					allBad, noneBad := true, true
					for _, kk := range ks {
						if kk == bad {
							noneBad = false
						} else {
							allBad = false
						}
					}
					if allBad {
						return 1
					}
					if noneBad {
						res = -1
					}
				}
				continue
			}
			eq := (c.Op == token.EQL) == f.Truth
			switch {
			case eq && k == bad:
				return 1
			case eq && k != bad:
				res = -1
			case !eq && k == bad:
				res = -1
			}
		case *ssa.Call:
			if p.isFailedMethod(c.Call.StaticCallee()) && len(c.Call.Args) == 1 && sameValue(c.Call.Args[0], st) && bad == constOf(p.A.StatusFailed) {
				if f.Truth {
					return 1
				}
				res = -1
			}
		}
	}
	return res
}

// paramConsts: v is a parameter of an unexported module function all of whose
// call sites are plain calls passing an integer constant there: those
// constants (nil otherwise).
func (p *Prog) paramConsts(v ssa.Value) []int64 {
	q, ok := stripConvPlain(v).(*ssa.Parameter)
	if !ok {
		return nil
	}
	fn := q.Parent()
	if fn == nil || fn.Object() == nil || fn.Object().Exported() || !inModule(fn) || fn.Parent() != nil {
		return nil
	}
	nd := p.CG.Nodes[fn]
	if nd == nil || len(nd.In) == 0 {
		return nil
	}
	idx := paramIndex(q)
	var out []int64
	for _, e := range nd.In {
		c, ok := e.Site.(*ssa.Call)
		if !ok || c.Call.StaticCallee() != fn || idx >= len(c.Call.Args) {
			return nil
		}
		k, isC := constInt(c.Call.Args[idx])
		if !isC {
			return nil
		}
		out = append(out, k)
	}
	return out
}

// badConstFor returns the distinguished "error" constant of a pair kind.
func (p *Prog) badConstFor(kind string) int64 {
	if kind == "pred" {
		return constOf(p.A.PredUnknown)
	}
	return constOf(p.A.StatusFailed)
}

// callOf: v is result #idx of a call; returns the call.
func callOf(v ssa.Value) (*ssa.Call, int) {
	v = stripConv(v)
	if mi, ok := v.(*ssa.MakeInterface); ok {
		v = mi.X
	}
	if ex, ok := v.(*ssa.Extract); ok {
		if c, ok := ex.Tuple.(*ssa.Call); ok {
			return c, ex.Index
		}
	}
	return nil, 0
}

// calleeSig returns the signature of the called function value.
func calleeSig(c *ssa.Call) *types.Signature {
	if c.Call.IsInvoke() {
		return c.Call.Method.Type().(*types.Signature)
	}
	s, _ := c.Call.Value.Type().Underlying().(*types.Signature)
	return s
}

// errMayBeNonNil: least fixpoint of "the error value may be non-nil here",
// given branch facts. Coherent callees are assumed (err != nil ⇒ status bad),
// which is exactly what R-PAIR-P establishes for each of them.
func (p *Prog) errMayBeNonNil(e ssa.Value, fs []Fact, seen map[ssa.Value]bool) bool {
	e = stripConv(e)
	if c, ok := e.(*ssa.Const); ok && c.Value == nil {
		return false
	}
	if isNil, _ := nilFact(fs, e); isNil {
		return false
	}
	if seen[e] {
		return false
	}
	seen[e] = true
	if call, idx := callOf(e); call != nil {
		sig := calleeSig(call)
		if sig != nil && idx == sig.Results().Len()-1 {
			if k := p.pairKind(sig); k != "" {
				if st := extractOf(call, 0); st != nil && p.statusFact(fs, st, p.badConstFor(k)) == -1 {
					return false
				}
			}
		}
		return true
	}
	if ph, ok := e.(*ssa.Phi); ok {
		for i, ed := range ph.Edges {
			efs := edgeFacts(ph.Block().Preds[i], succIndex(ph.Block().Preds[i], ph.Block()))
			if p.errMayBeNonNil(ed, efs, seen) {
				return true
			}
		}
		return false
	}
	return true
}

func succIndex(from, to *ssa.BasicBlock) int {
	for i, s := range from.Succs {
		if s == to {
			return i
		}
	}
	return 0
}

// pairCoherent checks one (status, error) pair under facts.
func (p *Prog) pairCoherent(st, e ssa.Value, fs []Fact, bad int64, seen map[[2]ssa.Value]bool) (bool, string) {
	k := [2]ssa.Value{st, e}
	if seen[k] {
		return true, ""
	}
	seen[k] = true
	if v, ok := constInt(st); ok && v == bad {
		return true, ""
	}
	if !p.errMayBeNonNil(e, fs, map[ssa.Value]bool{}) {
		return true, ""
	}
	// both results of one call to a pair-returning function
	if c1, i1 := callOf(st); c1 != nil {
		if c2, i2 := callOf(e); c2 == c1 && i1 == 0 && i2 == 1 {
			if sig := calleeSig(c1); sig != nil && p.pairKind(sig) != "" {
				return true, ""
			}
		}
		// … or the status and the error of one call to a helper that carries
		// such a pair beside a value (`item, res, err := exec.operand(…)`)
		// and sets them together on each of its returns
		if c2, i2 := callOf(e); c2 == c1 && i2 == i1+1 {
			if j, kind := p.statusAmongResults(c1.Call.StaticCallee()); kind != "" && j == i1 {
				return true, ""
			}
		}
	}
	if p.statusFact(fs, st, bad) == 1 {
		return true, ""
	}
	ps, okS := st.(*ssa.Phi)
	pe, okE := e.(*ssa.Phi)
	switch {
	case okS && okE && ps.Block() == pe.Block():
		for i := range ps.Edges {
			pred := ps.Block().Preds[i]
			efs := edgeFacts(pred, succIndex(pred, ps.Block()))
			if ok, why := p.pairCoherent(ps.Edges[i], pe.Edges[i], efs, bad, seen); !ok {
				return false, why
			}
		}
		return true, ""
	case okS:
		for i := range ps.Edges {
			pred := ps.Block().Preds[i]
			efs := edgeFacts(pred, succIndex(pred, ps.Block()))
			if ok, why := p.pairCoherent(ps.Edges[i], e, efs, bad, seen); !ok {
				return false, why
			}
		}
		return true, ""
	case okE:
		for i := range pe.Edges {
			pred := pe.Block().Preds[i]
			efs := edgeFacts(pred, succIndex(pred, pe.Block()))
			if ok, why := p.pairCoherent(st, pe.Edges[i], efs, bad, seen); !ok {
				return false, why
			}
		}
		return true, ""
	}
	return false, fmt.Sprintf("status %s with an error that may be non-nil (%s)", describeStatus(p, st), describe(e))
}

func describeStatus(p *Prog, v ssa.Value) string {
	if k, ok := constInt(v); ok {
		for n, c := range p.A.StatusConsts {
			if types.Identical(v.Type(), p.A.StatusType) && constOf(c) == k {
				return n
			}
		}
		for n, c := range p.A.PredConsts {
			if types.Identical(v.Type(), p.A.PredType) && constOf(c) == k {
				return n
			}
		}
	}
	return describe(v)
}

// execFuncs: module functions of package exec with bodies, sorted.
func (p *Prog) execFuncs() []*ssa.Function {
	var fns []*ssa.Function
	for fn := range p.AllFns {
		if fnPkgPath(fn) == pkgExec && fn.Blocks != nil && fn.Synthetic == "" {
			fns = append(fns, fn)
		}
	}
	sort.Slice(fns, func(i, j int) bool { return fns[i].String() < fns[j].String() })
	return fns
}

var rulePairP = &Rule{
	Name: "R-PAIR-P", NeedSSA: true,
	Doc: "producer coherence: in every function returning (status, error) or (outcome, error), at each return whose error may be non-nil the status is failed/unknown, or both operands are the two results of one call to such a function (phi pairs checked edge-wise, defer-spilled returns looked through)",
	Run: func(p *Prog) *RuleOut {
		out := newOut("R-PAIR-P")
		nf, nr := 0, 0
		for _, fn := range p.execFuncs() {
			kind := p.pairKind(fn.Signature)
			if kind == "" {
				continue
			}
			nf++
			bad := p.badConstFor(kind)
			ord := 0
			for _, r := range returnsOf(fn) {
				nr++
				ord++
				st, e := r.Results[0], r.Results[1]
				fs := factsAt(r.Instr.Block())
				key := fmt.Sprintf("%s return (%s, %s)", fnName(fn), describeStatus(p, st), shapeBrief(p, e))
				if ok, why := p.pairCoherent(st, e, fs, bad, map[[2]ssa.Value]bool{}); ok {
					out.ok(key, p.pos(r.Instr.Pos()), fnName(fn), "coherent")
				} else {
					out.viol(key, p.pos(r.Instr.Pos()), fnName(fn), "an error (possibly a cancellation or a hard error) is returned with a status that callers treat as a normal outcome: "+why)
				}
			}
		}
		out.Counts["pair_functions"] = nf
		out.Counts["returns"] = nr
		out.Floors["pair_functions"] = 13
		out.Floors["returns"] = 50
		return out
	},
}

func shapeBrief(p *Prog, v ssa.Value) string {
	sh := p.shapeOf(v)
	switch sh.Kind {
	case "call":
		return "err of " + sh.Callee
	case "param":
		return "param " + sh.Text
	case "phi":
		return "phi"
	}
	return sh.String()
}

// --- consumer side ------------------------------------------------------------

// Tabled exceptions of R-DROP (none today: the one former entry went stale when the traversal started to poll the context, see DESIGN §7).
var dropExceptions = map[string]string{}

type pathState struct {
	blk    *ssa.BasicBlock
	idx    int
	alias  map[ssa.Value]bool
	nonNil bool // error known non-nil on this path
	onPath map[*ssa.BasicBlock]bool
	trail  []string
}

// okImpliesNoError: result j of fn is a bool that is the constant true only on
// returns whose error is the nil constant (and is a constant on every return).
func okImpliesNoError(fn *ssa.Function, j int) bool {
	if fn == nil || fn.Blocks == nil || j >= fn.Signature.Results().Len()-1 || !lastIsError(fn.Signature) {
		return false
	}
	if b, ok := fn.Signature.Results().At(j).Type().Underlying().(*types.Basic); !ok || b.Kind() != types.Bool {
		return false
	}
	ntrue := 0
	for _, r := range expandedReturns(fn) {
		k, ok := stripConv(r.Results[j]).(*ssa.Const)
		if !ok || k.Value == nil {
			return false
		}
		if k.Value.ExactString() == "true" {
			ntrue++
			if !isNilConst(stripConv(r.Results[len(r.Results)-1])) {
				return false
			}
		}
	}
	return ntrue > 0
}

// consumerCheck explores every CFG path from call c on which "c's error may
// be non-nil" has not been refuted and reports paths that lose the error.
func (p *Prog) consumerCheck(fn *ssa.Function, c *ssa.Call, errV, stV ssa.Value, kind string) (problems []string, onlyWhenCtxLive bool) {
	seenProblem := map[string]bool{}
	onlyWhenCtxLive = true
	curLive := false
	report := func(s string) {
		if !curLive {
			onlyWhenCtxLive = false
		}
		if !seenProblem[s] {
			seenProblem[s] = true
			problems = append(problems, s)
		}
	}
	bad := p.badConstFor(kind)
	type frame struct {
		blk     *ssa.BasicBlock
		idx     int
		alias   map[ssa.Value]bool
		on      map[*ssa.BasicBlock]bool
		ctxLive bool     // the path passed a test establishing ctx.Err() == nil
		ors     [][]Fact // disjunctions known on the path: a false `a && b` is ¬a ∨ ¬b
	}
	budget := 4000
	var walk func(f frame)
	walk = func(f frame) {
		if budget <= 0 {
			report("path exploration budget exhausted (undecided)")
			return
		}
		budget--
		b := f.blk
		curLive = f.ctxLive
		for i := f.idx; i < len(b.Instrs); i++ {
			ins := b.Instrs[i]
			switch x := ins.(type) {
			case *ssa.Return:
				if b == fn.Recover {
					return
				}
				ev := unspill(b, x, x.Results[len(x.Results)-1])
				if p.carries(ev, f.alias) {
					return
				}
				report("return at " + p.pos(x.Pos()) + " does not return the error of the call at " + p.pos(c.Pos()))
				return
			case *ssa.Panic:
				return
			case *ssa.Store:
				// spill into a named result / local cell: alias the cell's
				// later loads through unspill at the return.
			case *ssa.If:
				t, e := true, true // explore true / false edge
				cond := x.Cond
				// refuters
				if bo, ok := cond.(*ssa.BinOp); ok && (bo.Op == token.EQL || bo.Op == token.NEQ) {
					var other ssa.Value
					var subj ssa.Value
					switch {
					case f.alias[stripConv(bo.X)]:
						subj, other = bo.X, bo.Y
					case f.alias[stripConv(bo.Y)]:
						subj, other = bo.Y, bo.X
					}
					if subj != nil {
						if k, ok := other.(*ssa.Const); ok && k.Value == nil {
							// err == nil / err != nil
							if bo.Op == token.NEQ {
								e = false
							} else {
								t = false
							}
						}
					}
					if stV != nil && kind != "" {
						var o2 ssa.Value
						switch {
						case sameValue(bo.X, stV):
							o2 = bo.Y
						case sameValue(bo.Y, stV):
							o2 = bo.X
						}
						if o2 != nil {
							if k, ok := constInt(o2); ok {
								eqEdgeIsTrue := bo.Op == token.EQL
								if k == bad {
									// st == bad: the other edge refutes
									if eqEdgeIsTrue {
										e = false
									} else {
										t = false
									}
								} else {
									// st == good constant: that edge refutes
									if eqEdgeIsTrue {
										t = false
									} else {
										e = false
									}
								}
							} else if ks := p.paramConsts(o2); len(ks) > 0 {
								// st == a parameter every call site fills with a
								// good constant: the equal edge refutes
								good := true
								for _, kk := range ks {
									if kk == bad {
										good = false
									}
								}
								if good {
									if bo.Op == token.EQL {
										t = false
									} else {
										e = false
									}
								}
							}
						}
					}
				}
				if call, ok := cond.(*ssa.Call); ok && stV != nil && kind == "status" {
					if p.isFailedMethod(call.Call.StaticCallee()) && sameValue(call.Call.Args[0], stV) {
						e = false
					}
				}
				// an `ok` result of the same call that the callee only sets
				// together with a nil error: `v, ok, err := f(); if !ok { return …, err }`
				{
					base, neg := cond, false
					for {
						u, isNot := base.(*ssa.UnOp)
						if !isNot || u.Op != token.NOT {
							break
						}
						base, neg = u.X, !neg
					}
					if ex, ok := base.(*ssa.Extract); ok && ex.Tuple == ssa.Value(c) && okImpliesNoError(c.Call.StaticCallee(), ex.Index) {
						if neg {
							e = false // !ok is false: ok holds, the error is nil
						} else {
							t = false
						}
					}
				}
				liveEdge := -1 // successor index on which ctx.Err() == nil holds
				if bo, ok := cond.(*ssa.BinOp); ok && (bo.Op == token.EQL || bo.Op == token.NEQ) {
					if isCtxErrCall(bo.X) && isNilConst(bo.Y) || isCtxErrCall(bo.Y) && isNilConst(bo.X) {
						if bo.Op == token.EQL {
							liveEdge = 0
						} else {
							liveEdge = 1
						}
					}
				}
				// the condition may be a materialised a && b / a || b, or a named
				// test: what each edge implies, fact by fact
				aliases := f.alias
				refutes := func(f Fact) bool {
					bo, ok := f.Cond.(*ssa.BinOp)
					if !ok || (bo.Op != token.EQL && bo.Op != token.NEQ) {
						if call, ok := f.Cond.(*ssa.Call); ok && stV != nil && kind == "status" && !f.Truth {
							if p.isFailedMethod(call.Call.StaticCallee()) && len(call.Call.Args) > 0 && sameValue(call.Call.Args[0], stV) {
								return true // !st.failed()
							}
						}
						return false
					}
					eq := (bo.Op == token.EQL) == f.Truth
					for _, pr := range [][2]ssa.Value{{bo.X, bo.Y}, {bo.Y, bo.X}} {
						if aliases[stripConv(pr[0])] {
							if k, ok := pr[1].(*ssa.Const); ok && k.Value == nil && eq {
								return true // err == nil
							}
						}
						if stV != nil && kind != "" && sameValue(pr[0], stV) {
							if k, ok := constInt(pr[1]); ok {
								if (k == bad && !eq) || (k != bad && eq) {
									return true // the status is not the bad one
								}
							} else if ks := p.paramConsts(pr[1]); len(ks) > 0 && eq {
								good := true
								for _, kk := range ks {
									if kk == bad {
										good = false
									}
								}
								if good {
									return true
								}
							}
						}
					}
					return false
				}
				if _, isPhi := cond.(*ssa.Phi); isPhi || func() bool { _, c := cond.(*ssa.Call); return c }() {
					for si := 0; si < 2 && si < len(b.Succs); si++ {
						for _, ef := range appendFact(nil, Fact{Cond: cond, Truth: si == 0}, 0)[1:] {
							if refutes(ef) {
								if si == 0 {
									t = false
								} else {
									e = false
								}
							}
						}
					}
				}
				// disjunctions: a materialised `a && b` that is false (or `a || b`
				// that is true) leaves ¬a ∨ ¬b (a ∨ b) for the rest of the path;
				// a later test that settles one disjunct settles the other
				sameCond := func(a, b ssa.Value) bool {
					x, ok1 := a.(*ssa.BinOp)
					y, ok2 := b.(*ssa.BinOp)
					if ok1 && ok2 {
						return x.Op == y.Op && sameValue(x.X, y.X) && sameValue(x.Y, y.Y)
					}
					return a == b
				}
				edgeOrs := [2][][]Fact{f.ors, f.ors}
				for si := 0; si < 2; si++ {
					truth := si == 0
					var next [][]Fact
					dead := false
					for _, dis := range f.ors {
						var keep []Fact
						for _, d := range dis {
							if sameCond(d.Cond, cond) && d.Truth != truth {
								continue // this disjunct is contradicted on the edge
							}
							keep = append(keep, d)
						}
						switch {
						case len(keep) == 0:
							dead = true
						case len(keep) == 1 && len(keep) < len(dis):
							if refutes(keep[0]) {
								dead = true
							}
						}
						next = append(next, keep)
					}
					if ph, ok := cond.(*ssa.Phi); ok {
						if ops, isOr, ok := shortCircuit(ph, 0); ok && isOr == truth {
							var dis []Fact
							for _, o := range ops {
								dis = append(dis, Fact{Cond: o, Truth: truth})
							}
							next = append(next, dis)
						}
					}
					edgeOrs[si] = next
					if dead {
						if si == 0 {
							t = false
						} else {
							e = false
						}
					}
				}
				succs := b.Succs
				for si, s := range succs {
					if (si == 0 && !t) || (si == 1 && !e) {
						continue
					}
					ors := edgeOrs[0]
					if si == 1 {
						ors = edgeOrs[1]
					}
					live := f.ctxLive || si == liveEdge
					curLive = f.ctxLive
					p.enter(f.alias, f.on, b, s, fn, c, report, func(na map[ssa.Value]bool, non map[*ssa.BasicBlock]bool) {
						walk(frame{s, 0, na, non, live, ors})
					})
				}
				return
			case *ssa.Jump:
				s := b.Succs[0]
				p.enter(f.alias, f.on, b, s, fn, c, report, func(na map[ssa.Value]bool, non map[*ssa.BasicBlock]bool) {
					walk(frame{s, 0, na, non, f.ctxLive, f.ors})
				})
				return
			}
		}
	}
	alias := map[ssa.Value]bool{}
	if errV != nil {
		alias[errV] = true
	}
	start := frame{c.Block(), instrIndex(c.Block(), c) + 1, alias, map[*ssa.BasicBlock]bool{c.Block(): true}, false, nil}
	walk(start)
	if len(problems) == 0 {
		onlyWhenCtxLive = false
	}
	return problems, onlyWhenCtxLive
}

func isNilConst(v ssa.Value) bool {
	c, ok := v.(*ssa.Const)
	return ok && c.Value == nil
}

// isCtxErrCall: v is ctx.Err() on a context.Context.
func isCtxErrCall(v ssa.Value) bool {
	c, ok := v.(*ssa.Call)
	return ok && c.Call.IsInvoke() && c.Call.Method.Name() == "Err" && isContextType(c.Call.Value.Type())
}

// enter moves along edge from→to, extending the alias set through phis and
// refusing to cross a back edge.
func (p *Prog) enter(alias map[ssa.Value]bool, on map[*ssa.BasicBlock]bool, from, to *ssa.BasicBlock, fn *ssa.Function, c *ssa.Call,
	report func(string), cont func(map[ssa.Value]bool, map[*ssa.BasicBlock]bool)) {
	if on[to] {
		report("the loop continues (back edge into block " + fmt.Sprint(to.Index) + " at " + p.pos(firstPos(to)) + ") while the error of the call at " + p.pos(c.Pos()) + " may be set: a later iteration overwrites it")
		return
	}
	na := map[ssa.Value]bool{}
	for k := range alias {
		na[k] = true
	}
	pi := -1
	for i, pr := range to.Preds {
		if pr == from {
			pi = i
		}
	}
	for _, ins := range to.Instrs {
		ph, ok := ins.(*ssa.Phi)
		if !ok {
			break
		}
		if pi >= 0 && alias[stripConv(ph.Edges[pi])] {
			na[ph] = true
		}
	}
	non := map[*ssa.BasicBlock]bool{}
	for k := range on {
		non[k] = true
	}
	non[to] = true
	cont(na, non)
}

func firstPos(b *ssa.BasicBlock) token.Pos {
	for _, ins := range b.Instrs {
		if ins.Pos().IsValid() {
			return ins.Pos()
		}
	}
	return token.NoPos
}

// carries: the returned error is (an alias of) the tracked error, or the
// result of a call that was handed the tracked error.
func (p *Prog) carries(ev ssa.Value, alias map[ssa.Value]bool) bool {
	ev = stripConv(ev)
	if alias[ev] {
		return true
	}
	if ph, ok := ev.(*ssa.Phi); ok {
		for _, e := range ph.Edges {
			if alias[stripConv(e)] {
				return true
			}
		}
	}
	if call, _ := callOf(ev); call != nil {
		for _, a := range call.Call.Args {
			if alias[stripConv(a)] {
				return true
			}
		}
		// wrapped with fmt.Errorf("%w", err)
		if calleeQualified(&call.Call) == "fmt.Errorf" && len(call.Call.Args) > 1 {
			for _, a := range variadicArgs(call.Call.Args[1]) {
				if a == nil {
					continue
				}
				a = stripConv(a)
				if mi, ok := a.(*ssa.MakeInterface); ok {
					a = stripConv(mi.X)
				}
				if alias[a] {
					return true
				}
			}
		}
	}
	if c, ok := ev.(*ssa.Call); ok {
		for _, a := range c.Call.Args {
			if alias[stripConv(a)] {
				return true
			}
		}
	}
	return false
}

// mayFailCallee: the call returns an error as last result and the callee is
// (resolved to) module code of package exec or types, or is a dynamic call of
// a module function type.
func (p *Prog) mayFailCall(c *ssa.Call) (bool, string) {
	sig := calleeSig(c)
	if sig == nil || !lastIsError(sig) {
		return false, ""
	}
	if sc := c.Call.StaticCallee(); sc != nil {
		if !inModule(sc) {
			return false, ""
		}
		return true, fnName(sc)
	}
	// dynamic: callback of a module-declared function type
	if n := p.CG.Nodes[c.Parent()]; n != nil {
		for _, e := range n.Out {
			if e.Site == c && inModule(e.Callee.Func) {
				return true, "callback " + c.Call.Value.Name()
			}
		}
	}
	return false, ""
}

func mkPairC(name string, tolerant bool, doc string) *Rule {
	return &Rule{
		Name: name, NeedSSA: true,
		Doc: doc + "consumer propagation: after every call in package exec to a module function that returns an error, every CFG path on which 'the error may be set' is not refuted (err == nil edge; status known not failed / outcome known not unknown) reaches a return that returns that error (directly, through a phi, or through a helper it is handed to) without first re-entering a loop",
		Run: func(p *Prog) *RuleOut {
			out := newOut(name)
			ncalls := 0
			for _, fn := range p.execFuncs() {
				if !lastIsError(fn.Signature) {
					// functions that cannot return an error are judged by R-DROP only
				}
				ord := map[string]int{}
				for _, b := range fn.Blocks {
					for _, ins := range b.Instrs {
						c, ok := ins.(*ssa.Call)
						if !ok {
							continue
						}
						may, callee := p.mayFailCall(c)
						if !may {
							continue
						}
						ncalls++
						ord[callee]++
						key := fmt.Sprintf("%s ← %s #%d", fnName(fn), callee, ord[callee])
						// a helper whose only possible errors come from the standard
						// library (a number that does not parse): no cancellation or
						// hard error can be lost here; what is done with its value is
						// R-ERRFIRST's subject
						if sc := c.Call.StaticCallee(); sc != nil && p.onlyForeignErrors(sc) {
							out.ok(key, p.pos(c.Pos()), fnName(fn), "the callee can only return errors of the standard library: nothing non-suppressible to lose")
							continue
						}
						sig := calleeSig(c)
						var errV, stV ssa.Value
						if sig.Results().Len() == 1 {
							errV = c
						} else {
							errV = extractOf(c, sig.Results().Len()-1)
							stV = extractOf(c, 0)
						}
						kind := p.pairKind(sig)
						if kind == "" {
							stV = nil
							// a helper returning (…, status|outcome, error) that sets the
							// error only together with the failed status / unknown outcome
							if j, k := p.statusAmongResults(c.Call.StaticCallee()); k != "" {
								kind, stV = k, extractOf(c, j)
								if stV == nil {
									kind = ""
								}
							}
						}
						if errV == nil || len(*errV.Referrers()) == 0 {
							dk := fnName(fn) + " drops the error of " + callee
							if why, ok := dropExceptions[dk]; ok {
								out.excepted(dk, p.pos(c.Pos()), fnName(fn), why)
							} else {
								out.viol(dk, p.pos(c.Pos()), fnName(fn), "the error result is discarded: a cancellation or hard error raised below this call becomes a normal outcome")
							}
							continue
						}
						if !lastIsError(fn.Signature) {
							out.ok(key, p.pos(c.Pos()), fnName(fn), "caller has no error result; error is consumed")
							continue
						}
						probs, onlyLive := p.consumerCheck(fn, c, stripConv(errV), stV, kind)
						switch {
						case len(probs) == 0:
							out.ok(key, p.pos(c.Pos()), fnName(fn), "every unrefuted path returns the error")
						case onlyLive && tolerant:
							out.ok(key+" [lost only while the context is not done]", p.pos(c.Pos()), fnName(fn),
								"cancellation is propagated (every path that drops the error first establishes ctx.Err() == nil); the loss of other errors at this site is judged under C08")
						case onlyLive:
							out.viol(key+" [lost only while the context is not done]", p.pos(c.Pos()), fnName(fn),
								"a non-cancellation error of this call can be lost (cancellation is propagated: every losing path first establishes ctx.Err() == nil): "+probs[0], probs...)
						default:
							out.viol(key, p.pos(c.Pos()), fnName(fn), "the error of this call can be lost: "+probs[0], probs...)
						}
					}
				}
			}
			out.Counts["may_fail_call_sites"] = ncalls
			out.Floors["may_fail_call_sites"] = 40
			return out
		},
	}
}

var rulePairC = mkPairC("R-PAIR-C", true, "(sites that drop only non-cancellation errors behind an explicit ctx.Err() test are tolerated here and judged by R-PAIR-C-HARD) ")
var rulePairCHard = mkPairC("R-PAIR-C-HARD", false, "(every loss counts, including losses limited to non-cancellation errors) ")

// --- R-LAUNDER ------------------------------------------------------------------

var ruleLaunder = &Rule{
	Name: "R-LAUNDER", NeedSSA: true,
	Doc: "in a helper whose results do not include the status type, after a call returning a status, every exit on which 'status == failed' has not been refuted returns an error that is provably non-nil: a suppressed failure (failed, nil) must not come out looking like a success",
	Run: func(p *Prog) *RuleOut {
		out := newOut("R-LAUNDER")
		entry := p.entrySet()
		nh := 0
		for _, fn := range p.execFuncs() {
			if p.pairKind(fn.Signature) != "" || !lastIsError(fn.Signature) || entry[fn] {
				continue
			}
			// entry adapters (called only from the exported entry points) discard
			// the status on purpose
			if n := p.CG.Nodes[fn]; n != nil && len(n.In) > 0 {
				all := true
				for _, e := range n.In {
					if !entry[e.Caller.Func] {
						all = false
					}
				}
				if all {
					continue
				}
			}
			for _, b := range fn.Blocks {
				for _, ins := range b.Instrs {
					c, ok := ins.(*ssa.Call)
					if !ok {
						continue
					}
					sig := calleeSig(c)
					if sig == nil || p.pairKind(sig) != "status" {
						continue
					}
					nh++
					stV, errV := extractOf(c, 0), extractOf(c, 1)
					key := fmt.Sprintf("%s launders the status of %s", fnName(fn), calleeName(&c.Call))
					if stV == nil {
						out.viol(key, p.pos(c.Pos()), fnName(fn), "status of the call is ignored by a helper that reports success through a nil error")
						continue
					}
					bad := p.launderCheck(fn, c, stV, errV)
					if len(bad) == 0 {
						out.ok(key, p.pos(c.Pos()), fnName(fn), "every exit where the callee may have failed returns a provably non-nil error")
					} else {
						out.viol(key, p.pos(c.Pos()), fnName(fn), "a suppressed failure (failed, nil) leaves this helper as a success: "+bad[0], bad...)
					}
				}
			}
		}
		out.Counts["helper_call_sites"] = nh
		out.Floors["helper_call_sites"] = 1
		return out
	},
}

// flagsFailure: the return r of helper fn carries the constant false in a bool
// result that is the constant true on some other return with a nil error
// (okImpliesNoError), and every caller of fn branches on that result.
func (p *Prog) flagsFailure(fn *ssa.Function, r RetSite) bool {
	for j := 0; j < len(r.Results)-1; j++ {
		k, ok := stripConv(r.Results[j]).(*ssa.Const)
		if !ok || k.Value == nil || k.Value.ExactString() != "false" || !okImpliesNoError(fn, j) {
			continue
		}
		node := p.CG.Nodes[fn]
		if node == nil || len(node.In) == 0 {
			continue
		}
		all := true
		for _, e := range node.In {
			c, ok := e.Site.(*ssa.Call)
			if !ok || c.Call.StaticCallee() != fn {
				all = false
				break
			}
			ex := extractOf(c, j)
			tested := false
			if ex != nil {
				var uses func(v ssa.Value, d int)
				uses = func(v ssa.Value, d int) {
					for _, u := range *v.Referrers() {
						switch x := u.(type) {
						case *ssa.If:
							tested = true
						case *ssa.UnOp:
							if x.Op == token.NOT && d < 3 {
								uses(x, d+1)
							}
						}
					}
				}
				uses(ex, 0)
			}
			if !tested {
				all = false
			}
		}
		if all {
			return true
		}
	}
	return false
}

func (p *Prog) launderCheck(fn *ssa.Function, c *ssa.Call, stV, errV ssa.Value) []string {
	var bad []string
	failedK := constOf(p.A.StatusFailed)
	for _, r := range returnsOf(fn) {
		blk := r.Instr.Block()
		if !(c.Block() == blk || c.Block().Dominates(blk)) {
			continue
		}
		fs := factsAt(blk)
		if p.statusFact(fs, stV, failedK) == -1 {
			continue // not failed on this exit
		}
		// the status itself leaves through one of the results (a helper
		// returning (…, status, error)): nothing is laundered
		carried := false
		for _, rv := range r.Results[:len(r.Results)-1] {
			if !types.Identical(rv.Type(), p.A.StatusType) {
				continue
			}
			if sameValue(rv, stV) {
				carried = true
			}
			if k, ok := constInt(stripConv(rv)); ok && k == failedK {
				carried = true
			}
		}
		if carried {
			continue
		}
		e := r.Results[len(r.Results)-1]
		sh := p.shapeOf(e)
		nonNil := sh.Kind == "errorf" || sh.Kind == "global"
		if !nonNil {
			if _, nn := nilFact(fs, stripConv(e)); nn {
				nonNil = true
			}
		}
		if !nonNil {
			if ph, ok := stripConv(e).(*ssa.Phi); ok {
				all := true
				for i, ed := range ph.Edges {
					pred := ph.Block().Preds[i]
					efs := edgeFacts(pred, succIndex(pred, ph.Block()))
					esh := p.shapeOf(ed)
					_, nn := nilFact(efs, stripConv(ed))
					if !(esh.Kind == "errorf" || esh.Kind == "global" || nn) {
						all = false
					}
				}
				nonNil = all
			}
		}
		if !nonNil && p.flagsFailure(fn, r) {
			continue // the failure leaves through a false `ok` result that every caller tests
		}
		if !nonNil {
			if p.statusFact(fs, stV, failedK) == 0 {
				// status unknown on this exit: only a problem if the exit is a
				// success exit (nil error) — judged like the failed case
			}
			if sh.Kind == "nil" && p.statusFact(fs, stV, failedK) == 0 {
				bad = append(bad, "return at "+p.pos(r.Instr.Pos())+" returns a nil error although the callee's status was never tested for failure")
				continue
			}
			if p.statusFact(fs, stV, failedK) == 0 {
				// the error handed back comes from somewhere else (a later call)
				// and may be nil: the suppressed failure is forgotten
				bad = append(bad, "return at "+p.pos(r.Instr.Pos())+" is reached without the callee's status having been tested for failure and hands back "+sh.String()+", which may be nil")
				continue
			}
			if p.statusFact(fs, stV, failedK) == 1 {
				bad = append(bad, "return at "+p.pos(r.Instr.Pos())+" on the failed branch returns an error that may be nil ("+sh.String()+")")
			}
		}
	}
	return bad
}

func init() {
	_ = strings.Join
	register(rulePairP, rulePairC, rulePairCHard, ruleLaunder)
}
