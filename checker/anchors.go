package main

// Anchors: how sites are found without freezing text. Everything here is
// resolved from exported API objects, types and structure; an anchor that
// fails to resolve is a hard failure of the check.

import (
	"fmt"
	"go/ast"
	"go/constant"
	"go/types"
	"sort"
	"strings"

	"golang.org/x/tools/go/ssa"
)

type EnumInfo struct {
	Type   *types.Named
	Consts []*types.Const // sorted by value
}

func (e *EnumInfo) byVal(v int64) *types.Const {
	for _, c := range e.Consts {
		if cv, ok := constant.Int64Val(c.Val()); ok && cv == v {
			return c
		}
	}
	return nil
}

func (e *EnumInfo) byName(n string) *types.Const {
	for _, c := range e.Consts {
		if c.Name() == n {
			return c
		}
	}
	return nil
}

type Anchors struct {
	// exec
	Entry                                      map[string]*types.Func // Query First Exists Match
	EntryOrder                                 []string
	Executor                                   *types.Named
	ExecStruct                                 *types.Struct
	ErrExecution, ErrVerbose, ErrInvalid, NULL *types.Var
	ErrParse, ErrPath, ErrScan, ErrSQLType     *types.Var
	WithSilent, WithTZ, WithVars               *types.Func
	VerboseField, UseTZField, VarsField        *types.Var

	// ast
	Node       *types.Named
	NodeIface  *types.Interface
	NodeKinds  []*types.Named // exported concrete node types (pointer receivers)
	ASTType    *types.Named
	Enums      map[string]*EnumInfo  // Constant BinaryOperator UnaryOperator MethodName
	ASTStructs map[*types.Named]bool // all named struct types of package ast

	// types
	DateTime      *types.Named
	DateTimeImpls []*types.Named
	TZFromContext *types.Func

	// item universe: the 13 dynamic types an item can have.
	ItemTypes []types.Type

	// roles in exec discovered structurally
	Dispatcher     *types.Func // type switch over ast.Node with most cases, returns (status, error)
	BoolDispatcher *types.Func // type switch over ast.Node returning (predOutcome, error)
	StatusType     *types.Named
	PredType       *types.Named
	StatusConsts   map[string]*types.Const // by name
	PredConsts     map[string]*types.Const
	StatusFailed   *types.Const
	PredUnknown    *types.Const
	ValueList      *types.Named
}

func lookupVar(pk *types.Package, name string) (*types.Var, error) {
	o := pk.Scope().Lookup(name)
	v, ok := o.(*types.Var)
	if !ok {
		return nil, fmt.Errorf("anchor unresolved: var %s.%s", pk.Path(), name)
	}
	return v, nil
}

func lookupFunc(pk *types.Package, name string) (*types.Func, error) {
	o := pk.Scope().Lookup(name)
	f, ok := o.(*types.Func)
	if !ok {
		return nil, fmt.Errorf("anchor unresolved: func %s.%s", pk.Path(), name)
	}
	return f, nil
}

func lookupNamed(pk *types.Package, name string) (*types.Named, error) {
	o := pk.Scope().Lookup(name)
	tn, ok := o.(*types.TypeName)
	if !ok {
		return nil, fmt.Errorf("anchor unresolved: type %s.%s", pk.Path(), name)
	}
	n, ok := tn.Type().(*types.Named)
	if !ok {
		return nil, fmt.Errorf("anchor unresolved: type %s.%s is not a named type", pk.Path(), name)
	}
	return n, nil
}

func resolveAnchors(p *Prog) (*Anchors, error) {
	a := &Anchors{Entry: map[string]*types.Func{}, Enums: map[string]*EnumInfo{}, ASTStructs: map[*types.Named]bool{},
		StatusConsts: map[string]*types.Const{}, PredConsts: map[string]*types.Const{}}
	ex := p.Pkgs[pkgExec].Types
	as := p.Pkgs[pkgAST].Types
	ty := p.Pkgs[pkgTypes].Types
	pa := p.Pkgs[pkgParser].Types
	pp := p.Pkgs[pkgPath].Types
	var err error
	a.EntryOrder = []string{"Query", "First", "Exists", "Match"}
	for _, n := range a.EntryOrder {
		if a.Entry[n], err = lookupFunc(ex, n); err != nil {
			return nil, err
		}
	}
	if a.Executor, err = lookupNamed(ex, "Executor"); err != nil {
		return nil, err
	}
	st, ok := a.Executor.Underlying().(*types.Struct)
	if !ok {
		return nil, fmt.Errorf("anchor unresolved: exec.Executor is not a struct")
	}
	a.ExecStruct = st
	for _, v := range []struct {
		pk   *types.Package
		name string
		dst  **types.Var
	}{
		{ex, "ErrExecution", &a.ErrExecution}, {ex, "ErrVerbose", &a.ErrVerbose}, {ex, "ErrInvalid", &a.ErrInvalid}, {ex, "NULL", &a.NULL},
		{pa, "ErrParse", &a.ErrParse}, {pp, "ErrPath", &a.ErrPath}, {pp, "ErrScan", &a.ErrScan}, {ty, "ErrSQLType", &a.ErrSQLType},
	} {
		if *v.dst, err = lookupVar(v.pk, v.name); err != nil {
			return nil, err
		}
	}
	for _, f := range []struct {
		name string
		dst  **types.Func
	}{{"WithSilent", &a.WithSilent}, {"WithTZ", &a.WithTZ}, {"WithVars", &a.WithVars}} {
		if *f.dst, err = lookupFunc(ex, f.name); err != nil {
			return nil, err
		}
	}
	// Option fields: the Executor field assigned inside the function literal
	// returned by each option constructor.
	for _, o := range []struct {
		fn  *types.Func
		dst **types.Var
	}{{a.WithSilent, &a.VerboseField}, {a.WithTZ, &a.UseTZField}, {a.WithVars, &a.VarsField}} {
		fd := p.funcDecl(o.fn)
		if fd == nil {
			return nil, fmt.Errorf("anchor unresolved: declaration of %s", o.fn.Name())
		}
		info := p.Pkgs[pkgExec].TypesInfo
		var found *types.Var
		// the assignment may sit in a helper the constructor returns the result
		// of (`func WithSilent() Option { return setVerbose(false) }`)
		var look func(fd *ast.FuncDecl, depth int)
		look = func(fd *ast.FuncDecl, depth int) {
			ast.Inspect(fd, func(n ast.Node) bool {
				switch x := n.(type) {
				case *ast.AssignStmt:
					for _, l := range x.Lhs {
						if se, ok := l.(*ast.SelectorExpr); ok {
							if sel := info.Selections[se]; sel != nil && sel.Kind() == types.FieldVal {
								if v, ok := sel.Obj().(*types.Var); ok && isFieldOf(v, st) {
									found = v
								}
							}
						}
					}
				case *ast.CallExpr:
					if id, ok := x.Fun.(*ast.Ident); ok && depth < 2 && found == nil {
						if callee, ok := info.Uses[id].(*types.Func); ok && callee.Pkg() != nil && callee.Pkg().Path() == pkgExec {
							if cd := p.funcDecl(callee); cd != nil && cd != fd {
								look(cd, depth+1)
							}
						}
					}
				}
				return true
			})
		}
		look(fd, 0)
		if found == nil {
			return nil, fmt.Errorf("anchor unresolved: Executor field set by %s", o.fn.Name())
		}
		*o.dst = found
	}

	// ast
	if a.Node, err = lookupNamed(as, "Node"); err != nil {
		return nil, err
	}
	a.NodeIface, ok = a.Node.Underlying().(*types.Interface)
	if !ok {
		return nil, fmt.Errorf("anchor unresolved: ast.Node is not an interface")
	}
	if a.ASTType, err = lookupNamed(as, "AST"); err != nil {
		return nil, err
	}
	for _, name := range as.Scope().Names() {
		tn, ok := as.Scope().Lookup(name).(*types.TypeName)
		if !ok || tn.IsAlias() {
			continue
		}
		n, ok := tn.Type().(*types.Named)
		if !ok {
			continue
		}
		if _, ok := n.Underlying().(*types.Struct); ok {
			a.ASTStructs[n] = true
			if tn.Exported() && types.Implements(types.NewPointer(n), a.NodeIface) {
				a.NodeKinds = append(a.NodeKinds, n)
			}
		}
	}
	sort.Slice(a.NodeKinds, func(i, j int) bool { return a.NodeKinds[i].Obj().Name() < a.NodeKinds[j].Obj().Name() })
	for _, en := range []string{"Constant", "BinaryOperator", "UnaryOperator", "MethodName"} {
		n, err := lookupNamed(as, en)
		if err != nil {
			return nil, err
		}
		ei := &EnumInfo{Type: n}
		for _, name := range as.Scope().Names() {
			if c, ok := as.Scope().Lookup(name).(*types.Const); ok && types.Identical(c.Type(), n) {
				ei.Consts = append(ei.Consts, c)
			}
		}
		sort.Slice(ei.Consts, func(i, j int) bool {
			x, _ := constant.Int64Val(ei.Consts[i].Val())
			y, _ := constant.Int64Val(ei.Consts[j].Val())
			return x < y
		})
		if len(ei.Consts) == 0 {
			return nil, fmt.Errorf("anchor unresolved: enum %s has no constants", en)
		}
		a.Enums[en] = ei
	}

	// types
	if a.DateTime, err = lookupNamed(ty, "DateTime"); err != nil {
		return nil, err
	}
	dti, ok := a.DateTime.Underlying().(*types.Interface)
	if !ok {
		return nil, fmt.Errorf("anchor unresolved: types.DateTime is not an interface")
	}
	for _, name := range ty.Scope().Names() {
		tn, ok := ty.Scope().Lookup(name).(*types.TypeName)
		if !ok || !tn.Exported() {
			continue
		}
		n, ok := tn.Type().(*types.Named)
		if !ok {
			continue
		}
		if _, isStruct := n.Underlying().(*types.Struct); isStruct && types.Implements(types.NewPointer(n), dti) {
			a.DateTimeImpls = append(a.DateTimeImpls, n)
		}
	}
	sort.Slice(a.DateTimeImpls, func(i, j int) bool { return a.DateTimeImpls[i].Obj().Name() < a.DateTimeImpls[j].Obj().Name() })
	if a.TZFromContext, err = lookupFunc(ty, "TZFromContext"); err != nil {
		return nil, err
	}

	// item universe
	anyT := types.Universe.Lookup("any").Type()
	jn := p.Pkgs["encoding/json"]
	if jn == nil {
		return nil, fmt.Errorf("anchor unresolved: encoding/json not loaded")
	}
	jnum, err := lookupNamed(jn.Types, "Number")
	if err != nil {
		return nil, err
	}
	a.ItemTypes = []types.Type{
		types.Typ[types.UntypedNil],
		types.Typ[types.Bool], types.Typ[types.Int64], types.Typ[types.Float64], jnum, types.Typ[types.String],
		types.NewSlice(anyT), types.NewMap(types.Typ[types.String], anyT),
	}
	for _, d := range a.DateTimeImpls {
		a.ItemTypes = append(a.ItemTypes, types.NewPointer(d))
	}

	// dispatchers: type switches over ast.Node in package exec
	type cand struct {
		fn    *types.Func
		cases int
		res0  types.Type
	}
	var cands []cand
	info := p.Pkgs[pkgExec].TypesInfo
	for _, f := range p.Pkgs[pkgExec].Syntax {
		for _, d := range f.Decls {
			fd, ok := d.(*ast.FuncDecl)
			if !ok || fd.Body == nil {
				continue
			}
			fo, _ := info.Defs[fd.Name].(*types.Func)
			if fo == nil {
				continue
			}
			sig := fo.Type().(*types.Signature)
			if sig.Results().Len() != 2 {
				continue
			}
			ast.Inspect(fd.Body, func(n ast.Node) bool {
				ts, ok := n.(*ast.TypeSwitchStmt)
				if !ok {
					return true
				}
				x := typeSwitchOperand(ts)
				if x == nil {
					return true
				}
				if tv, ok := info.Types[x]; ok && types.Identical(tv.Type, a.Node) {
					nc := 0
					for _, cl := range ts.Body.List {
						for _, e := range cl.(*ast.CaseClause).List {
							if t := info.TypeOf(e); t != nil {
								if pt, ok := t.(*types.Pointer); ok {
									if nn, ok := pt.Elem().(*types.Named); ok && a.ASTStructs[nn] {
										nc++
									}
								}
							}
						}
					}
					cands = append(cands, cand{fo, nc, sig.Results().At(0).Type()})
				}
				return true
			})
		}
	}
	sort.SliceStable(cands, func(i, j int) bool { return cands[i].cases > cands[j].cases })
	if len(cands) == 0 || cands[0].cases < len(a.NodeKinds)/2 {
		return nil, fmt.Errorf("anchor unresolved: node dispatcher (type switch over ast.Node in exec)")
	}
	a.Dispatcher = cands[0].fn
	a.StatusType, ok = cands[0].res0.(*types.Named)
	if !ok {
		return nil, fmt.Errorf("anchor unresolved: status type")
	}
	for _, c := range cands[1:] {
		if n, ok := c.res0.(*types.Named); ok && n != a.StatusType && c.cases >= 2 {
			if b, ok := n.Underlying().(*types.Basic); ok && b.Info()&types.IsInteger != 0 {
				a.BoolDispatcher = c.fn
				a.PredType = n
				break
			}
		}
	}
	if a.BoolDispatcher == nil {
		return nil, fmt.Errorf("anchor unresolved: boolean dispatcher")
	}
	for _, name := range ex.Scope().Names() {
		if c, ok := ex.Scope().Lookup(name).(*types.Const); ok {
			if types.Identical(c.Type(), a.StatusType) {
				a.StatusConsts[c.Name()] = c
			}
			if types.Identical(c.Type(), a.PredType) {
				a.PredConsts[c.Name()] = c
			}
		}
	}
	// failed constant: the status constant returned in the ctx.Done() arm of
	// the select in the dispatcher. unknown constant: the outcome returned
	// with an ErrInvalid error by the boolean dispatcher.
	if fd := p.funcDecl(a.Dispatcher); fd != nil {
		ast.Inspect(fd.Body, func(n ast.Node) bool {
			cc, ok := n.(*ast.CommClause)
			if !ok || cc.Comm == nil {
				return true
			}
			for _, s := range cc.Body {
				if r, ok := s.(*ast.ReturnStmt); ok && len(r.Results) == 2 {
					if id, ok := r.Results[0].(*ast.Ident); ok {
						if c, ok := info.Uses[id].(*types.Const); ok {
							a.StatusFailed = c
						}
					}
				}
			}
			return true
		})
	}
	if a.StatusFailed == nil {
		// the interrupt test may live in a helper: fall back to the status
		// constant that accompanies freshly constructed errors (`return k,
		// fmt.Errorf(…)`) throughout the package, which must be unanimous
		seen := map[*types.Const]int{}
		for _, f := range p.Pkgs[pkgExec].Syntax {
			ast.Inspect(f, func(n ast.Node) bool {
				r, ok := n.(*ast.ReturnStmt)
				if !ok || len(r.Results) != 2 {
					return true
				}
				if _, isCall := r.Results[1].(*ast.CallExpr); !isCall {
					return true
				}
				if id, ok := r.Results[0].(*ast.Ident); ok {
					if c, ok := info.Uses[id].(*types.Const); ok && types.Identical(c.Type(), a.StatusType) {
						seen[c]++
					}
				}
				return true
			})
		}
		if len(seen) == 1 {
			for c := range seen {
				a.StatusFailed = c
			}
		}
	}
	if a.StatusFailed == nil {
		return nil, fmt.Errorf("anchor unresolved: failed status constant (return in ctx.Done arm of dispatcher, or the constant returned with constructed errors)")
	}
	if fd := p.funcDecl(a.BoolDispatcher); fd != nil {
		ast.Inspect(fd.Body, func(n ast.Node) bool {
			r, ok := n.(*ast.ReturnStmt)
			if !ok || len(r.Results) != 2 {
				return true
			}
			// the outcome constant that accompanies an error: a return whose
			// error operand is not the nil literal (it mentions the sentinel
			// directly or goes through an error-constructor helper)
			if eid, ok := r.Results[1].(*ast.Ident); ok && eid.Name == "nil" {
				return true
			}
			if _, isCall := r.Results[1].(*ast.CallExpr); !isCall && !mentionsObj(info, r.Results[1], a.ErrInvalid) {
				return true
			}
			if id, ok := r.Results[0].(*ast.Ident); ok {
				if c, ok := info.Uses[id].(*types.Const); ok {
					a.PredUnknown = c
				}
			}
			return true
		})
	}
	if a.PredUnknown == nil {
		return nil, fmt.Errorf("anchor unresolved: unknown predicate constant")
	}
	// valueList: the pointer-to-named-struct parameter type of the dispatcher
	// defined in package exec.
	dsig := a.Dispatcher.Type().(*types.Signature)
	for i := 0; i < dsig.Params().Len(); i++ {
		if pt, ok := dsig.Params().At(i).Type().(*types.Pointer); ok {
			if n, ok := pt.Elem().(*types.Named); ok && n.Obj().Pkg() == ex {
				a.ValueList = n
			}
		}
	}
	if a.ValueList == nil {
		return nil, fmt.Errorf("anchor unresolved: value list type")
	}
	return a, nil
}

func typeSwitchOperand(ts *ast.TypeSwitchStmt) ast.Expr {
	var x ast.Expr
	switch s := ts.Assign.(type) {
	case *ast.AssignStmt:
		if len(s.Rhs) == 1 {
			x = s.Rhs[0]
		}
	case *ast.ExprStmt:
		x = s.X
	}
	if ta, ok := ast.Unparen(x).(*ast.TypeAssertExpr); ok {
		return ta.X
	}
	return nil
}

func mentionsObj(info *types.Info, e ast.Node, obj types.Object) bool {
	found := false
	ast.Inspect(e, func(n ast.Node) bool {
		if id, ok := n.(*ast.Ident); ok && info.Uses[id] == obj {
			found = true
		}
		return !found
	})
	return found
}

func isFieldOf(v *types.Var, st *types.Struct) bool {
	for i := 0; i < st.NumFields(); i++ {
		if st.Field(i) == v {
			return true
		}
	}
	return false
}

// funcDecl finds the syntax of a module function.
func (p *Prog) funcDecl(fn *types.Func) *ast.FuncDecl {
	if fn == nil || fn.Pkg() == nil {
		return nil
	}
	pk := p.Pkgs[fn.Pkg().Path()]
	if pk == nil {
		return nil
	}
	for _, f := range pk.Syntax {
		for _, d := range f.Decls {
			if fd, ok := d.(*ast.FuncDecl); ok && pk.TypesInfo.Defs[fd.Name] == fn {
				return fd
			}
		}
	}
	return nil
}

// ssaOf returns the SSA function of a types.Func of the module.
func (p *Prog) ssaOf(fn *types.Func) *ssa.Function {
	if p.SSA == nil || fn == nil {
		return nil
	}
	return p.SSA.FuncValue(fn)
}

func typeStr(t types.Type) string {
	if t == nil {
		return "<nil>"
	}
	s := types.TypeString(t, func(p *types.Package) string {
		return strings.TrimPrefix(strings.TrimPrefix(p.Path(), modPath+"/path/"), modPath+"/")
	})
	return s
}
