package main

// R-RUNESTEP (C02, C03): byte offsets inside a string advance by the width of
// the rune, not by one.
//
// In `for i, r := range s`, i is the byte offset of r. `i + 1` is the offset of
// the next rune only when r is a single byte. A value built as
// rangeIndex + constant that reaches a slice bound of the ranged string
// (directly or through a variable carried round the loop) cuts multi-byte
// runes in two unless the rune is known to be ASCII at that point: the printer
// then writes stray continuation bytes, the lexer reads them.

import (
	"fmt"
	"go/token"
	"go/types"

	"golang.org/x/tools/go/ssa"
)

var ruleRuneStep = &Rule{
	Name: "R-RUNESTEP", NeedSSA: true,
	Doc: "in packages ast and parser, inside a range over a string no value computed as (byte index of the current rune) + constant reaches a bound of a slice of that same string — directly or through a variable carried round the loop — unless the current rune is known to be a single byte there (a dominating test r < utf8.RuneSelf or against an ASCII constant); the next offset is i + utf8.RuneLen(r)",
	Run: func(p *Prog) *RuleOut {
		out := newOut("R-RUNESTEP")
		nloops := 0
		for fn := range p.AllFns {
			if pk := fnPkgPath(fn); (pk != pkgAST && pk != pkgParser) || fn.Blocks == nil {
				continue
			}
			for _, b := range fn.Blocks {
				for _, ins := range b.Instrs {
					rg, ok := ins.(*ssa.Range)
					if !ok {
						continue
					}
					if bt, ok := rg.X.Type().Underlying().(*types.Basic); !ok || bt.Info()&types.IsString == 0 {
						continue
					}
					nloops++
					// the index and rune extracts of this iterator
					var idx, rn ssa.Value
					for _, r := range *rg.Referrers() {
						nx, ok := r.(*ssa.Next)
						if !ok {
							continue
						}
						for _, r2 := range *nx.Referrers() {
							if ex, ok := r2.(*ssa.Extract); ok {
								switch ex.Index {
								case 1:
									idx = ex
								case 2:
									rn = ex
								}
							}
						}
					}
					if idx == nil {
						continue
					}
					ord := 0
					for _, r := range *idx.Referrers() {
						bo, ok := r.(*ssa.BinOp)
						if !ok || bo.Op != token.ADD {
							continue
						}
						k, isC := constInt(bo.Y)
						if !isC || k <= 0 {
							continue
						}
						// ASCII known here?
						ascii := false
						if rn != nil {
							for _, f := range factsAt(bo.Block()) {
								c, ok := f.Cond.(*ssa.BinOp)
								if !ok || c.X != rn {
									continue
								}
								if kk, ok := constInt(c.Y); ok {
									if (c.Op == token.LSS && f.Truth && kk <= 128) || (c.Op == token.GEQ && !f.Truth && kk <= 128) || (c.Op == token.EQL && f.Truth && kk < 128) || (c.Op == token.LEQ && f.Truth && kk < 128) {
										ascii = true
									}
								}
							}
						}
						if ascii {
							continue
						}
						// does it reach a slice bound of the ranged string?
						seen := map[ssa.Value]bool{}
						var reach func(v ssa.Value) ssa.Instruction
						reach = func(v ssa.Value) ssa.Instruction {
							if seen[v] {
								return nil
							}
							seen[v] = true
							for _, u := range *v.Referrers() {
								switch x := u.(type) {
								case *ssa.Slice:
									if sameValue(x.X, rg.X) && (x.Low == v || x.High == v) {
										return x
									}
								case *ssa.Phi:
									if at := reach(x); at != nil {
										return at
									}
								}
							}
							return nil
						}
						if at := reach(bo); at != nil {
							ord++
							out.viol(fmt.Sprintf("%s: rune offset advanced by a constant #%d", fnName(fn), ord), p.pos(bo.Pos()), fnName(fn),
								fmt.Sprintf("the byte index of the current rune plus %d is used as a bound of a slice of the ranged string (at %s) although the rune may be wider than one byte: a multi-byte rune is cut and its continuation bytes are emitted or read on their own", k, p.pos(at.Pos())))
						}
					}
				}
			}
		}
		out.Counts["range_loops_over_strings"] = nloops
		out.Floors["range_loops_over_strings"] = 1
		if len(out.Obs) == 0 {
			out.ok("rune offsets", "path/ast, path/parser", "", fmt.Sprintf("%d range loops over strings: no byte index + constant reaches a slice bound of the ranged string", nloops))
		}
		return out
	},
}

func init() { register(ruleRuneStep) }
