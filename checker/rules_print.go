package main

// C02: printer rules.

import (
	"fmt"
	"go/ast"
	"go/constant"
	"go/token"
	"go/types"
	"sort"
	"strings"

	"golang.org/x/tools/go/ssa"
)

// escapes the standard library's strconv.Quote can emit (documented contract).
var strconvQuotePairs = map[int64]string{7: `\a`, 8: `\b`, 12: `\f`, 10: `\n`, 13: `\r`, 9: `\t`, 11: `\v`, 92: `\\`, 34: `\"`}
var strconvQuoteForms = []string{`\x%02x`, `\u%04x`, `\U%08x`}

// constStringArg: the call's i-th argument is a string constant.
func constStringArg(c *ssa.Call, i int) (string, bool) {
	if i >= len(c.Call.Args) {
		return "", false
	}
	k, ok := c.Call.Args[i].(*ssa.Const)
	if !ok || k.Value == nil {
		return "", false
	}
	s := constString(k)
	return s, true
}

var ruleEsc = &Rule{
	Name: "R-ESC", NeedSSA: true,
	Doc: "every escape sequence the string printer can emit (for strings, keys, variables and like_regex patterns) is decoded by the lexer's escape switch to the same code point: simple escapes map back to the rune they were printed for, \\xNN and \\u forms have a handler; an escape letter the lexer treats literally (\\a → a, \\U → U) is a violation; the largest code point the printer's branch tests allow where it writes \\xNN is not above the largest the tests allow where the lexer's \\x decoder hands its value on; digits the printer writes itself after \\x / \\u are two / four, each from a table of the sixteen hexadecimal digits, or come from a base-16 formatter",
	Run: func(p *Prog) *RuleOut {
		out := newOut("R-ESC")
		// printer: the quoting function used by quotedString.String
		qs, _ := lookupNamed(p.Pkgs[pkgAST].Types, "quotedString")
		if qs == nil {
			out.undecided("quotedString", "-", "", "anchor unresolved")
			return out
		}
		strFn := p.ssaFunc(pkgAST, "*quotedString.String")
		if strFn == nil {
			out.undecided("quotedString.String", "-", "", "anchor unresolved")
			return out
		}
		var quoteFns []*ssa.Function
		usesStd := false
		collect := func(fn *ssa.Function) {
			for _, b := range fn.Blocks {
				for _, ins := range b.Instrs {
					c, ok := ins.(*ssa.Call)
					if !ok {
						continue
					}
					q := calleeQualified(&c.Call)
					if q == "strconv.Quote" {
						usesStd = true
					}
					if sc := c.Call.StaticCallee(); sc != nil && fnPkgPath(sc) == pkgAST && sc.Signature.Recv() == nil &&
						sc.Signature.Params().Len() == 1 && types.Identical(sc.Signature.Params().At(0).Type(), types.Typ[types.String]) &&
						sc.Signature.Results().Len() == 1 && types.Identical(sc.Signature.Results().At(0).Type(), types.Typ[types.String]) {
						quoteFns = append(quoteFns, sc)
					}
					// %q in a format string is strconv.Quote
					if q == "fmt.Fprintf" || q == "fmt.Sprintf" {
						for i := range c.Call.Args {
							if s, ok := constStringArg(c, i); ok && strings.Contains(s, "%q") {
								usesStd = true
							}
						}
					}
				}
			}
		}
		collect(strFn)
		// the regex printer
		if rw := p.ssaFunc(pkgAST, "*RegexNode.writeTo"); rw != nil {
			collect(rw)
		}
		pairs := map[int64]string{}
		var forms []string
		origin := ""
		if usesStd {
			for k, v := range strconvQuotePairs {
				pairs[k] = v
			}
			forms = append(forms, strconvQuoteForms...)
			origin = "strconv.Quote"
		}
		type looseEsc struct {
			s, at, fn string
			c         *ssa.Call
		}
		var loose []looseEsc
		for _, qf := range quoteFns {
			origin += " " + fnName(qf)
			// table-driven form: a package-level array of strings indexed with
			// the character (`shortEscapes[r]`), filled by its declaration only
			for _, b := range qf.Blocks {
				for _, ins := range b.Instrs {
					ia, ok := ins.(*ssa.IndexAddr)
					if !ok {
						continue
					}
					g, ok := ia.X.(*ssa.Global)
					if !ok || g.Pkg == nil || fnPkgPath(qf) != g.Pkg.Pkg.Path() {
						continue
					}
					for k, v := range stringArrayLiteral(p, g) {
						if len(v) == 2 && v[0] == '\\' {
							pairs[k] = v
						} else if strings.HasPrefix(v, `\`) {
							forms = append(forms, v)
						}
					}
				}
			}
			for _, b := range qf.Blocks {
				fs := factsAt(b)
				for _, ins := range b.Instrs {
					c, ok := ins.(*ssa.Call)
					if !ok {
						continue
					}
					for i := range c.Call.Args {
						s, ok := constStringArg(c, i)
						if !ok || !strings.HasPrefix(s, `\`) {
							continue
						}
						if len(s) == 2 {
							// which rune is this printed for?
							found := false
							for _, f := range fs {
								bo, ok := f.Cond.(*ssa.BinOp)
								if ok && bo.Op == token.EQL && f.Truth {
									if k, ok := constInt(bo.Y); ok {
										pairs[k] = s
										found = true
									}
								}
							}
							if !found {
								loose = append(loose, looseEsc{s, p.pos(c.Pos()), fnName(qf), c})
							}
						} else if !strings.Contains(s, "%") {
							// a bare prefix (`\u{`): the digits follow from elsewhere
							loose = append(loose, looseEsc{s, p.pos(c.Pos()), fnName(qf), c})
						} else {
							forms = append(forms, s)
						}
					}
				}
			}
		}
		// escapes chosen into a variable first (`esc = "\\n"` per case, written
		// once after the switch): the constants are phi edges
		for _, qf := range quoteFns {
			for _, b := range qf.Blocks {
				for _, ins := range b.Instrs {
					ph, ok := ins.(*ssa.Phi)
					if !ok {
						break
					}
					for i, e := range ph.Edges {
						k, ok := e.(*ssa.Const)
						if !ok || k.Value == nil || k.Value.Kind() != constant.String {
							continue
						}
						s := constant.StringVal(k.Value)
						if !strings.HasPrefix(s, `\`) {
							continue
						}
						if len(s) != 2 {
							forms = append(forms, s)
							continue
						}
						pred := b.Preds[i]
						found := false
						for _, f := range edgeFacts(pred, succIndex(pred, b)) {
							bo, ok := f.Cond.(*ssa.BinOp)
							if ok && bo.Op == token.EQL && f.Truth {
								if kk, ok := constInt(bo.Y); ok {
									pairs[kk] = s
									found = true
									break
								}
							}
						}
						if !found {
							out.undecided("escape "+s+" in "+fnName(qf), p.pos(ph.Pos()), fnName(qf), "cannot tell for which rune this escape is printed")
						}
					}
				}
			}
		}
		if len(pairs) == 0 {
			out.undecided("printer escapes", "-", "", "no escape table recovered from the printer")
			return out
		}
		out.Counts["simple_escapes_of_the_printer"] = len(pairs)
		out.Floors["simple_escapes_of_the_printer"] = 8
		// lexer: letter → rune written
		lexT, _ := lookupNamed(p.Pkgs[pkgParser].Types, "lexer")
		lexMap := map[int64]int64{}
		special := map[int64]string{}
		var escFn *ssa.Function
		for fn := range p.AllFns {
			if fnPkgPath(fn) != pkgParser || fn.Blocks == nil || fn.Signature.Recv() == nil || namedOf(fn.Signature.Recv().Type()) != lexT {
				continue
			}
			m := map[int64]int64{}
			sp := map[int64]string{}
			for _, b := range fn.Blocks {
				var letter *int64
				for _, f := range factsAt(b) {
					bo, ok := f.Cond.(*ssa.BinOp)
					if ok && bo.Op == token.EQL && f.Truth {
						if k, ok := constInt(bo.Y); ok && k > 32 && k < 127 {
							kk := k
							letter = &kk
						}
					}
				}
				if letter == nil || len(b.Preds) != 1 {
					continue
				}
				for _, ins := range b.Instrs {
					c, ok := ins.(*ssa.Call)
					if !ok {
						continue
					}
					if wv, ok := runeWritten(c, 0); ok {
						if k, ok := constInt(wv); ok {
							m[*letter] = k
						}
					}
					if sc := c.Call.StaticCallee(); sc != nil && takesOnly(sc, lexT) &&
						sc.Name() != "next" && sc.Signature.Results().Len() >= 1 {
						sp[*letter] = sc.Name()
					}
				}
			}
			// table-driven form: a rune→rune map literal (local, or a package
			// variable filled by the initialiser) looked up with the escape
			// letter, the result written with WriteRune
			for _, b := range fn.Blocks {
				for _, ins := range b.Instrs {
					// two constant strings in corresponding order: the letter is
					// looked up in one (`strings.IndexByte("bfnrtv", …)`), the
					// character written is the other's at that position
					if ix, ok := ins.(*ssa.Index); ok && reachesWriteRune(ix, map[ssa.Value]bool{}, 0) {
						if vs, ok := ix.X.(*ssa.Const); ok && vs.Value != nil && vs.Value.Kind() == constant.String {
							if ic, ok := stripConvPlain(ix.Index).(*ssa.Call); ok {
								q := calleeQualified(&ic.Call)
								if (q == "strings.IndexByte" || q == "strings.IndexRune") && len(ic.Call.Args) == 2 {
									if ks, ok := ic.Call.Args[0].(*ssa.Const); ok && ks.Value != nil && ks.Value.Kind() == constant.String {
										letters, values := constant.StringVal(ks.Value), constant.StringVal(vs.Value)
										if len(letters) == len(values) {
											for j := 0; j < len(letters); j++ {
												if k := int64(letters[j]); k > 32 && k < 127 {
													m[k] = int64(values[j])
												}
											}
										}
									}
								}
							}
						}
						continue
					}
					lk, ok := ins.(*ssa.Lookup)
					if !ok {
						continue
					}
					if !reachesWriteRune(lk, map[ssa.Value]bool{}, 0) {
						continue
					}
					if vs, ok := lk.X.(*ssa.Const); ok && vs.Value != nil && vs.Value.Kind() == constant.String {
						if ic, ok := stripConvPlain(lk.Index).(*ssa.Call); ok {
							q := calleeQualified(&ic.Call)
							if (q == "strings.IndexByte" || q == "strings.IndexRune") && len(ic.Call.Args) == 2 {
								if ks, ok := ic.Call.Args[0].(*ssa.Const); ok && ks.Value != nil && ks.Value.Kind() == constant.String {
									letters, values := constant.StringVal(ks.Value), constant.StringVal(vs.Value)
									if len(letters) == len(values) {
										for j := 0; j < len(letters); j++ {
											if k := int64(letters[j]); k > 32 && k < 127 {
												m[k] = int64(values[j])
											}
										}
									}
								}
							}
						}
						continue
					}
					for k, v := range runeMapLiteral(p, lk.X) {
						if k > 32 && k < 127 {
							m[k] = v
						}
					}
				}
			}
			// … or an array indexed with the escape letter (in this method or
			// in a helper whose result is written): the value loaded from
			// table[ch] reaches WriteRune
			theProg = p
			scan := []*ssa.Function{fn}
			for _, c := range p.allCalls(fn) {
				if sc := c.Call.StaticCallee(); sc != nil && fnPkgPath(sc) == pkgParser && sc.Blocks != nil && sc.Signature.Recv() == nil {
					scan = append(scan, sc)
				}
			}
			for _, sf := range scan {
				for _, b := range sf.Blocks {
					for _, ins := range b.Instrs {
						ld, ok := ins.(*ssa.UnOp)
						if !ok || ld.Op != token.MUL {
							continue
						}
						ia, ok := ld.X.(*ssa.IndexAddr)
						if !ok {
							continue
						}
						g, ok := ia.X.(*ssa.Global)
						if !ok || !reachesWriteRune(ld, map[ssa.Value]bool{}, 0) {
							continue
						}
						// only when the write happens in fn itself
						for k, v := range runeArrayLiteral(p, g) {
							if k > 32 && k < 127 && v != 0 {
								m[k] = v
							}
						}
					}
				}
			}
			if len(m) >= 4 && len(m) > len(lexMap) {
				lexMap, special, escFn = m, sp, fn
			}
		}
		if escFn == nil {
			out.undecided("lexer escape switch", "-", "", "anchor unresolved: lexer method writing constant runes per escape letter")
			return out
		}
		// a bare `\x` or `\u` prefix whose digits the printer writes itself
		// (through a helper or digit by digit): the lexer must have a handler
		// for the letter; the digit layout is not examined in this form
		for _, le := range loose {
			L := int64(le.s[1])
			if special[L] == "" {
				out.undecided("escape "+le.s+" in "+le.fn, le.at, le.fn, "cannot tell for which rune this escape is printed")
				continue
			}
			key := "escape prefix " + le.s + " in " + le.fn
			how, ok := p.hexDigitsAfter(le.c, le.s)
			if ok {
				out.ok(key, le.at, le.fn, "the lexer handles the letter with "+special[L]+"; "+how)
			} else {
				out.viol(key, le.at, le.fn, "the printer writes the digits of this escape itself and "+how+": the lexer reads exactly two digits after \\x, exactly four after \\u and up to six inside \\u{…}, so the text reads back as another character or not at all")
			}
		}
		out.Counts["escape_letters_of_the_lexer"] = len(lexMap) + len(special)
		out.Floors["escape_letters_of_the_lexer"] = 8
		var ks []int64
		for k := range pairs {
			ks = append(ks, k)
		}
		sort.Slice(ks, func(i, j int) bool { return ks[i] < ks[j] })
		for _, k := range ks {
			esc := pairs[k]
			L := int64(esc[1])
			key := fmt.Sprintf("escape %s for U+%04X", esc, k)
			switch {
			case lexMap[L] == k && lexMap[L] != 0:
				out.ok(key, p.pos(escFn.Pos()), fnName(escFn), "decoded to the same code point")
			case lexMap[L] == 0 && special[L] == "" && L == k:
				out.ok(key, p.pos(escFn.Pos()), fnName(escFn), "not a special escape letter: the lexer takes the character literally, which is the printed character")
			case lexMap[L] == 0 && special[L] == "":
				out.viol(key, p.pos(escFn.Pos()), fnName(escFn), fmt.Sprintf("the printer (%s) writes %s for U+%04X but the lexer does not know the escape and reads it back as the letter %q: the re-parsed string differs", strings.TrimSpace(origin), esc, k, rune(L)))
			default:
				out.viol(key, p.pos(escFn.Pos()), fnName(escFn), fmt.Sprintf("printed for U+%04X but decoded to U+%04X", k, lexMap[L]))
			}
		}
		sort.Strings(forms)
		for _, f := range uniq(forms) {
			L := int64(f[1])
			key := "escape form " + f
			if special[L] != "" {
				// shape of the digits
				okShape := true
				switch f {
				case `\x%02x`, `\u%04x`, `\u{%x}`:
				default:
					// a bare prefix (`\u{`): the printer writes the digits
					// itself, their layout is not examined in this form
					okShape = !strings.Contains(f, "%")
				}
				if okShape {
					out.ok(key, p.pos(escFn.Pos()), fnName(escFn), "handled by "+special[L])
				} else {
					out.viol(key, p.pos(escFn.Pos()), fnName(escFn), "the lexer handles \\"+string(rune(L))+" but not with this digit layout")
				}
			} else {
				out.viol(key, p.pos(escFn.Pos()), fnName(escFn), fmt.Sprintf("the printer (%s) can write %s but the lexer has no handler for \\%c: it reads the letter literally", strings.TrimSpace(origin), f, rune(L)))
			}
		}
		// the code points written as \xNN lie within what the lexer's \x
		// decoder accepts: the largest value the branch tests allow at the
		// printer's write against the largest the tests allow where the
		// decoder hands its value on (two hexadecimal digits: 0xff at most)
		if special['x'] != "" {
			var dec *ssa.Function
			for fn := range p.AllFns {
				if fnPkgPath(fn) == pkgParser && fn.Blocks != nil && fn.Signature.Recv() != nil && namedOf(fn.Signature.Recv().Type()) == lexT && fn.Name() == special['x'] {
					dec = fn
				}
			}
			lexHi, lexOK := int64(-1), false
			if dec != nil {
				for _, b := range dec.Blocks {
					for _, ins := range b.Instrs {
						c, ok := ins.(*ssa.Call)
						if !ok {
							continue
						}
						q := calleeQualified(&c.Call)
						if (q != "strings.WriteRune" && q != "strings.WriteByte") || len(c.Call.Args) != 2 {
							continue
						}
						if iv, ok := p.rangeAtBlock(c.Call.Args[1], b); ok {
							lexHi, lexOK = max(lexHi, iv.hi), true
						} else {
							lexHi, lexOK = 0xff, true
						}
					}
				}
				if !lexOK {
					// the decoder hands the value back to its caller
					for _, r := range returnsOf(dec) {
						if len(r.Results) == 0 {
							continue
						}
						if _, isC := r.Results[0].(*ssa.Const); isC {
							continue
						}
						if bt, ok := r.Results[0].Type().Underlying().(*types.Basic); !ok || bt.Info()&types.IsInteger == 0 {
							continue
						}
						if iv, ok := p.rangeAtBlock(r.Results[0], r.Instr.Block()); ok {
							lexHi, lexOK = max(lexHi, iv.hi), true
						}
					}
				}
			}
			for _, qf := range quoteFns {
				for _, b := range qf.Blocks {
					for _, ins := range b.Instrs {
						c, ok := ins.(*ssa.Call)
						if !ok || len(c.Call.Args) < 2 {
							continue
						}
						fi := -1
						for i := range c.Call.Args {
							if fs, ok := constStringArg(c, i); ok && strings.HasPrefix(fs, `\x%`) {
								fi = i
							}
						}
						if fi < 0 || fi+1 >= len(c.Call.Args) {
							continue
						}
						args := variadicArgs(c.Call.Args[fi+1])
						if len(args) == 0 {
							continue
						}
						v := args[0]
						if mi, ok := v.(*ssa.MakeInterface); ok {
							v = mi.X
						}
						key := "code points written as \\xNN are accepted by the lexer's \\x decoder (" + fnName(qf) + ")"
						iv, ok := p.rangeAtBlock(v, b)
						switch {
						case !lexOK:
							out.ok(key, p.pos(c.Pos()), fnName(qf), "the decoder's accepted range could not be read off its tests: not compared")
						case !ok || iv.hi > lexHi:
							hi := "no upper bound"
							if ok {
								hi = fmt.Sprintf("U+%04X", iv.hi)
							}
							out.viol(key, p.pos(c.Pos()), fnName(qf), fmt.Sprintf("the printer writes \\xNN for code points up to %s, the lexer's %s accepts \\xNN up to U+%04X only: such a character in a key or string prints as a path that does not parse back", hi, dec.Name(), lexHi))
						default:
							out.ok(key, p.pos(c.Pos()), fnName(qf), fmt.Sprintf("written up to U+%04X, accepted up to U+%04X", iv.hi, lexHi))
						}
					}
				}
			}
		}
		return out
	},
}

// runeWritten: the call writes a rune into a strings.Builder, directly
// (WriteRune) or through a helper of package parser that forwards one of its
// rune parameters to such a write on its only path; returns the rune value.
func runeWritten(c *ssa.Call, depth int) (ssa.Value, bool) {
	if calleeQualified(&c.Call) == "strings.WriteRune" && len(c.Call.Args) == 2 {
		return c.Call.Args[1], true
	}
	// WriteByte of an ASCII constant writes that very character
	if calleeQualified(&c.Call) == "strings.WriteByte" && len(c.Call.Args) == 2 {
		if k, ok := constInt(c.Call.Args[1]); ok && k >= 0 && k < 0x80 {
			return c.Call.Args[1], true
		}
	}
	g := c.Call.StaticCallee()
	if g == nil || depth > 2 || fnPkgPath(g) != pkgParser || g.Blocks == nil || len(g.Blocks) != 1 {
		return nil, false
	}
	for _, ins := range g.Blocks[0].Instrs {
		ic, ok := ins.(*ssa.Call)
		if !ok {
			continue
		}
		wv, ok := runeWritten(ic, depth+1)
		if !ok {
			continue
		}
		q, ok := wv.(*ssa.Parameter)
		if !ok {
			return nil, false
		}
		for i, gp := range g.Params {
			if gp == q && i < len(c.Call.Args) {
				return c.Call.Args[i], true
			}
		}
	}
	return nil, false
}

// --- R-PAREN -------------------------------------------------------------------------------------

var ruleParen = &Rule{
	Name: "R-PAREN", NeedSSA: true,
	Doc: "a node that the grammar can only give a trailing accessor chain inside parentheses — arithmetic and boolean binary operators, unary + − ! exists `is unknown`, like_regex — prints an enclosing ( … ) around its own text on every path that goes on to print the chain",
	Run: func(p *Prog) *RuleOut {
		out := newOut("R-PAREN")
		type arm struct {
			kind, enum string
			ops        []string
			label      string
		}
		arms := []arm{
			{"BinaryNode", "BinaryOperator", []string{"BinaryAnd", "BinaryOr", "BinaryEqual", "BinaryNotEqual", "BinaryLess", "BinaryGreater", "BinaryLessOrEqual", "BinaryGreaterOrEqual", "BinaryStartsWith", "BinaryAdd", "BinarySub", "BinaryMul", "BinaryDiv", "BinaryMod"}, "binary operators"},
			{"UnaryNode", "UnaryOperator", []string{"UnaryPlus", "UnaryMinus"}, "unary + and −"},
			{"UnaryNode", "UnaryOperator", []string{"UnaryExists"}, "exists"},
			{"UnaryNode", "UnaryOperator", []string{"UnaryNot"}, "!"},
			{"UnaryNode", "UnaryOperator", []string{"UnaryIsUnknown"}, "is unknown"},
			{"RegexNode", "", nil, "like_regex"},
		}
		n := 0
		for _, a := range arms {
			fn := p.ssaFunc(pkgAST, "*"+a.kind+".writeTo")
			key := a.kind + ".writeTo (" + a.label + ") parenthesises itself before a trailing accessor chain"
			if fn == nil {
				out.undecided(key, "-", "", "anchor unresolved")
				continue
			}
			// sink: the invoke of writeTo on the next node
			tx, rows := p.extractTable(fn, nil, &TableCfg{Sink: func(ins ssa.Instruction) []ssa.Value {
				c, ok := ins.(*ssa.Call)
				if !ok {
					return nil
				}
				isNext := func(v ssa.Value) bool {
					rc, ok := v.(*ssa.Call)
					if !ok {
						return false
					}
					sc := rc.Call.StaticCallee()
					return sc != nil && sc.Name() == "Next"
				}
				if c.Call.IsInvoke() && c.Call.Method.Name() == "writeTo" {
					// receiver is the result of Next()
					if isNext(c.Call.Value) {
						return []ssa.Value{c.Call.Value}
					}
					return nil
				}
				// a helper that prints the node it is handed: f(buf, n.Next())
				if sc := c.Call.StaticCallee(); sc != nil && fnPkgPath(sc) == pkgAST && sc.Blocks != nil {
					for i, a := range c.Call.Args {
						if isNext(a) && i < len(sc.Params) && printsParam(sc, sc.Params[i]) {
							return []ssa.Value{a}
						}
					}
				}
				return nil
			}})
			var opAtom string
			if a.enum != "" {
				// the switch tag is a load of the op field
				for _, k := range sortedAtomKeys(tx.atoms) {
					if strings.HasPrefix(k, "field:") && types.Identical(tx.atoms[k].Val.Type(), p.A.Enums[a.enum].Type) {
						opAtom = k
					}
				}
				if opAtom == "" {
					out.undecided(key, p.pos(fn.Pos()), fnName(fn), "operator field not found among the conditions")
					continue
				}
			}
			bad := map[string]bool{}
			nrows := 0
			opsList := a.ops
			if a.enum == "" {
				opsList = []string{""}
			}
			for _, opn := range opsList {
				fixed := Assign{}
				if a.enum != "" {
					c := p.A.Enums[a.enum].byName(opn)
					if c == nil {
						continue
					}
					fixed[opAtom] = constOf(c)
				}
				for _, r := range rows {
					if r.Loop != nil || r.End == nil {
						continue
					}
					if _, isRet := r.End.(*ssa.Return); isRet {
						continue
					}
					names := tx.atomsOf(guardTerms(r)...)
					feasible := false
					for _, as := range tx.assignments(names, fixed) {
						if ok, _ := tx.satisfied(r, as); ok {
							feasible = true
						}
					}
					if !feasible {
						continue
					}
					nrows++
					first, last := firstLastWrites(r)
					if !(first == "(" && last == ")") {
						bad[opn] = true
					}
				}
			}
			n += nrows
			if nrows == 0 {
				out.viol(key, p.pos(fn.Pos()), fnName(fn), "no path prints the trailing accessor chain at all")
				continue
			}
			if len(bad) == 0 {
				out.ok(key, p.pos(fn.Pos()), fnName(fn), fmt.Sprintf("%d chain-printing paths, all enclosed", nrows))
			} else {
				out.viol(key, p.pos(fn.Pos()), fnName(fn),
					"there is a path on which the node's own text is not enclosed in ( ) although an accessor chain follows: the printed path re-parses to a different tree or not at all (operators: "+strings.Join(sortedKeys(bad), ", ")+")")
			}
		}
		out.Counts["chain_printing_paths"] = n
		out.Floors["chain_printing_paths"] = 6
		return out
	},
}

// firstLastWrites: the first and the last constant written to the buffer on
// the path (WriteRune/WriteString/WriteByte/Fprintf with a constant).
func firstLastWrites(r *PathRow) (first, last string) {
	var ws []string
	for _, b := range r.Blocks {
		for _, ins := range b.Instrs {
			if ins == r.End {
				break
			}
			c, ok := ins.(*ssa.Call)
			if !ok {
				continue
			}
			q := calleeQualified(&c.Call)
			switch q {
			case "strings.WriteRune", "strings.WriteByte":
				if k, ok := constInt(c.Call.Args[1]); ok {
					ws = append(ws, string(rune(k)))
				} else {
					ws = append(ws, "?")
				}
			case "strings.WriteString":
				if s, ok := constStringArg(c, 1); ok {
					ws = append(ws, s)
				} else {
					ws = append(ws, "?")
				}
			case "fmt.Fprintf":
				if s, ok := constStringArg(c, 1); ok {
					ws = append(ws, s)
				} else {
					ws = append(ws, "?")
				}
			default:
				// a nested writeTo (operand) writes something
				if c.Call.IsInvoke() && c.Call.Method.Name() == "writeTo" {
					ws = append(ws, "<operand>")
				}
			}
		}
	}
	if len(ws) == 0 {
		return "", ""
	}
	return ws[0], ws[len(ws)-1]
}

// --- R-MARSHAL -----------------------------------------------------------------------------------

var ruleMarshal = &Rule{
	Name: "R-MARSHAL", NeedSSA: true,
	Doc: "MarshalText, MarshalBinary and Value return exactly String() (which returns the AST's canonical text) with a nil error: text, binary and SQL encodings are the same text that Parse reads back",
	Run: func(p *Prog) *RuleOut {
		out := newOut("R-MARSHAL")
		str := p.ssaFunc(pkgPath, "*Path.String")
		astStr := p.ssaFunc(pkgAST, "*AST.String")
		if str == nil || astStr == nil {
			out.undecided("Path.String", "-", "", "anchor unresolved")
			return out
		}
		// Path.String returns AST.String()
		okStr := false
		for _, r := range returnsOf(str) {
			if c, ok := stripConv(r.Results[0]).(*ssa.Call); ok && c.Call.StaticCallee() == astStr {
				okStr = true
			}
		}
		if okStr {
			out.ok("Path.String is the AST's canonical text", p.pos(str.Pos()), fnName(str), "returns AST.String()")
		} else {
			out.viol("Path.String is the AST's canonical text", p.pos(str.Pos()), fnName(str), "does not return AST.String()")
		}
		// viaString: the value is String() of the receiver, seen through
		// conversions or through a helper method of *Path that is handed the
		// same receiver and returns nothing but that
		var viaString func(v ssa.Value, depth int) bool
		viaString = func(v ssa.Value, depth int) bool {
			for i := 0; i < 4; i++ {
				v = stripConv(v)
				switch x := v.(type) {
				case *ssa.MakeInterface:
					v = x.X
					continue
				case *ssa.Convert:
					v = x.X
					continue
				case *ssa.Call:
					sc := x.Call.StaticCallee()
					if sc == str {
						return true
					}
					if sc == nil || depth > 2 || fnPkgPath(sc) != pkgPath || sc.Blocks == nil || sc.Signature.Results().Len() != 1 ||
						sc.Signature.Recv() == nil || len(x.Call.Args) != 1 || len(x.Parent().Params) == 0 || x.Call.Args[0] != ssa.Value(x.Parent().Params[0]) {
						return false
					}
					rets := returnsOf(sc)
					for _, r := range rets {
						if !viaString(r.Results[0], depth+1) {
							return false
						}
					}
					return len(rets) > 0
				}
				break
			}
			return false
		}
		mb := p.ssaFunc(pkgPath, "*Path.MarshalBinary")
		mt := p.ssaFunc(pkgPath, "*Path.MarshalText")
		val := p.ssaFunc(pkgPath, "*Path.Value")
		for _, m := range []struct {
			name string
			fn   *ssa.Function
		}{{"MarshalBinary", mb}, {"MarshalText", mt}, {"Value", val}} {
			key := "path." + m.name + " is String()"
			if m.fn == nil {
				out.undecided(key, "-", "", "anchor unresolved")
				continue
			}
			var encodes func(fn *ssa.Function, depth int) bool
			encodes = func(fn *ssa.Function, depth int) bool {
				rets := returnsOf(fn)
				for _, r := range rets {
					if len(r.Results) != 2 {
						return false
					}
					switch {
					case viaString(r.Results[0], 0) && isNilConst(stripConv(r.Results[1])):
					default:
						// both results of a sibling that satisfies the rule, or
						// of a helper of the package that is handed the path and
						// nothing else and satisfies it (`return encode(path)`)
						c0, i0 := callOf(r.Results[0])
						c1, i1 := callOf(r.Results[1])
						if c0 == nil || c0 != c1 || i0 != 0 || i1 != 1 {
							return false
						}
						sc := c0.Call.StaticCallee()
						if sc == mb || sc == mt {
							continue
						}
						if sc == nil || depth > 1 || sc.Blocks == nil || fnPkgPath(sc) != pkgPath || len(c0.Call.Args) != 1 || len(fn.Params) == 0 ||
							c0.Call.Args[0] != ssa.Value(fn.Params[0]) || !encodes(sc, depth+1) {
							return false
						}
					}
				}
				return len(rets) > 0
			}
			good := encodes(m.fn, 0)
			if good {
				out.ok(key, p.pos(m.fn.Pos()), fnName(m.fn), "returns the canonical text (or its sibling's result) and a nil error")
			} else {
				out.viol(key, p.pos(m.fn.Pos()), fnName(m.fn), "the encoded form is not exactly String(): what is written to a database or file is not what Parse reads back")
			}
		}
		return out
	},
}

func init() {
	register(ruleEsc, ruleParen, ruleMarshal)
}

// printsParam: fn invokes writeTo on its parameter q (and does nothing else
// with a node): a "print the rest of the chain" helper.
func printsParam(fn *ssa.Function, q *ssa.Parameter) bool {
	for _, b := range fn.Blocks {
		for _, ins := range b.Instrs {
			if c, ok := ins.(*ssa.Call); ok && c.Call.IsInvoke() && c.Call.Method.Name() == "writeTo" && c.Call.Value == ssa.Value(q) {
				return true
			}
		}
	}
	return false
}

// reachesWriteRune: the value (through extracts and phis) is an argument of
// (*strings.Builder).WriteRune.
func reachesWriteRune(v ssa.Value, seen map[ssa.Value]bool, depth int) bool {
	if depth > 6 || seen[v] {
		return false
	}
	seen[v] = true
	refs := v.Referrers()
	if refs == nil {
		return false
	}
	for _, r := range *refs {
		switch x := r.(type) {
		case *ssa.Call:
			if calleeQualified(&x.Call) == "strings.WriteRune" {
				return true
			}
		case *ssa.Extract:
			if x.Index == 0 && reachesWriteRune(x, seen, depth+1) {
				return true
			}
		case *ssa.Phi:
			if reachesWriteRune(x, seen, depth+1) {
				return true
			}
		case *ssa.Convert:
			if reachesWriteRune(x, seen, depth+1) {
				return true
			}
		case *ssa.BinOp, *ssa.If:
			// a test of the looked-up value (`if ctl != 0`) does not consume it
		case *ssa.Return:
			// returned by a small helper: followed into its callers
			if theProg != nil {
				if n := theProg.CG.Nodes[x.Parent()]; n != nil {
					for _, e := range n.In {
						if c, ok := e.Site.(*ssa.Call); ok && c.Call.StaticCallee() == x.Parent() && reachesWriteRune(c, seen, depth+1) {
							return true
						}
					}
				}
			}
		}
	}
	return false
}

// theProg: the program under analysis, for helpers that have no receiver.
var theProg *Prog

// runeArrayLiteral: the constant entries of a package-level array variable
// initialised by a keyed composite literal and never stored to elsewhere.
// stringArrayLiteral: the constant strings of a package-level array (or slice)
// of strings written as a composite literal and never stored to outside the
// package initialiser, by index.
// hexDigitsAfter: where the digits that follow the escape prefix written (or
// handed on) by call c come from. Complete digits from a base-16 formatter of
// the standard library (strconv.AppendUint/FormatInt…, a %x verb) are fine for
// every prefix when the writer pads to the fixed widths; digits written by
// hand need a constant width that fits the prefix: 2 for \x, 4 for \u, at
// least 6 for \u{.
func (p *Prog) hexDigitsAfter(c *ssa.Call, prefix string) (string, bool) {
	if c == nil || c.Block() == nil {
		return "their source is not found", false
	}
	// the digits written one by one right after the prefix, each looked up in
	// a constant table of the sixteen hexadecimal digits (`buf.WriteByte(
	// lowerHex[r>>4]); buf.WriteByte(lowerHex[r&0xf])`): their number is the
	// number the lexer reads
	{
		after, n := false, 0
		for _, ins := range c.Block().Instrs {
			if ins == ssa.Instruction(c) {
				after = true
				continue
			}
			if !after {
				continue
			}
			wc, ok := ins.(*ssa.Call)
			if !ok {
				continue
			}
			if calleeQualified(&wc.Call) != "strings.WriteByte" || len(wc.Call.Args) != 2 {
				break
			}
			var tx ssa.Value
			switch lk := wc.Call.Args[1].(type) {
			case *ssa.Lookup:
				tx = lk.X
			case *ssa.Index:
				tx = lk.X
			}
			if tx == nil {
				break
			}
			tbl, ok := tx.(*ssa.Const)
			if !ok || tbl.Value == nil || tbl.Value.Kind() != constant.String {
				break
			}
			if t := strings.ToLower(constant.StringVal(tbl.Value)); t != "0123456789abcdef" {
				break
			}
			n++
		}
		want := map[string]int{`\x`: 2, `\u`: 4}[prefix]
		if n > 0 {
			if want != 0 && n == want {
				return fmt.Sprintf("%d digits, each from a table of the sixteen hexadecimal digits", n), true
			}
			return fmt.Sprintf("writes %d hexadecimal digits after it", n), false
		}
	}
	var writer *ssa.Call
	if g := c.Call.StaticCallee(); g != nil && inModule(g) && !c.Call.IsInvoke() {
		writer = c // the prefix is an argument of the digit writer itself
	} else {
		after := false
		for _, ins := range c.Block().Instrs {
			if ins == ssa.Instruction(c) {
				after = true
				continue
			}
			if !after {
				continue
			}
			if n, ok := ins.(*ssa.Call); ok {
				if g := n.Call.StaticCallee(); g != nil && !n.Call.IsInvoke() && (inModule(g) || strings.HasPrefix(calleeQualified(&n.Call), "strconv.") || strings.HasPrefix(calleeQualified(&n.Call), "fmt.")) {
					writer = n
					break
				}
			}
		}
	}
	if writer == nil {
		return "their source is not found", false
	}
	var complete func(g *ssa.Function, depth int) string
	complete = func(g *ssa.Function, depth int) string {
		if g == nil || g.Blocks == nil || depth > 2 {
			return ""
		}
		for _, b := range g.Blocks {
			for _, ins := range b.Instrs {
				n, ok := ins.(*ssa.Call)
				if !ok {
					continue
				}
				switch q := calleeQualified(&n.Call); q {
				case "strconv.AppendUint", "strconv.AppendInt", "strconv.FormatUint", "strconv.FormatInt":
					if k, ok := constInt(n.Call.Args[len(n.Call.Args)-1]); ok && k == 16 {
						return q
					}
				case "fmt.Fprintf", "fmt.Sprintf", "fmt.Appendf":
					for i := range n.Call.Args {
						if fs, ok := constStringArg(n, i); ok && strings.Contains(fs, "x") && strings.Contains(fs, "%") {
							return q
						}
					}
				}
				if h := n.Call.StaticCallee(); h != nil && inModule(h) && !n.Call.IsInvoke() {
					if r := complete(h, depth+1); r != "" {
						return r
					}
				}
			}
		}
		return ""
	}
	switch q := calleeQualified(&writer.Call); {
	case strings.HasPrefix(q, "strconv.") || strings.HasPrefix(q, "fmt."):
		return "digits from " + q, true
	}
	g := writer.Call.StaticCallee()
	if via := complete(g, 0); via != "" {
		return "all the digits, from " + via + " in " + fnName(g), true
	}
	// written by hand: the constant widths handed to the writer
	var widths []int64
	for _, a := range writer.Call.Args {
		if _, isStr := a.(*ssa.Const); isStr {
			if k, ok := constInt(a); ok {
				widths = append(widths, k)
			}
		}
	}
	need := func(k int64) bool {
		switch prefix {
		case `\x`:
			return k == 2
		case `\u`:
			return k == 4
		}
		return k >= 6
	}
	for _, k := range widths {
		if need(k) {
			return fmt.Sprintf("a fixed width of %d digits written by %s", k, fnName(g)), true
		}
	}
	return fmt.Sprintf("%s writes them by hand with width %v", fnName(g), widths), false
}

func stringArrayLiteral(p *Prog, g *ssa.Global) map[int64]string {
	out := map[int64]string{}
	pk := p.Pkgs[g.Pkg.Pkg.Path()]
	if pk == nil {
		return out
	}
	for fn := range p.AllFns {
		if !inModule(fn) || fn.Name() == "init" {
			continue
		}
		for _, b := range fn.Blocks {
			for _, ins := range b.Instrs {
				if st, ok := ins.(*ssa.Store); ok {
					a := st.Addr
					for i := 0; i < 3; i++ {
						if ia, ok := a.(*ssa.IndexAddr); ok {
							a = ia.X
						}
					}
					if a == ssa.Value(g) {
						return out
					}
				}
			}
		}
	}
	for _, f := range pk.Syntax {
		for _, d := range f.Decls {
			gd, ok := d.(*ast.GenDecl)
			if !ok || gd.Tok != token.VAR {
				continue
			}
			for _, sp := range gd.Specs {
				vs := sp.(*ast.ValueSpec)
				for i, nm := range vs.Names {
					if pk.TypesInfo.Defs[nm] != g.Object() || i >= len(vs.Values) {
						continue
					}
					cl, ok := vs.Values[i].(*ast.CompositeLit)
					if !ok {
						return out
					}
					next := int64(0)
					for _, e := range cl.Elts {
						val := e
						if kv, ok := e.(*ast.KeyValueExpr); ok {
							tv, ok := pk.TypesInfo.Types[kv.Key]
							if !ok || tv.Value == nil {
								return map[int64]string{}
							}
							k, _ := constant.Int64Val(constant.ToInt(tv.Value))
							next = k
							val = kv.Value
						}
						tv, ok := pk.TypesInfo.Types[val]
						if !ok || tv.Value == nil || tv.Value.Kind() != constant.String {
							return map[int64]string{}
						}
						out[next] = constant.StringVal(tv.Value)
						next++
					}
				}
			}
		}
	}
	return out
}

func runeArrayLiteral(p *Prog, g *ssa.Global) map[int64]int64 {
	out := map[int64]int64{}
	pk := p.Pkgs[g.Pkg.Pkg.Path()]
	if pk == nil {
		return out
	}
	// no store outside the package initialiser
	for fn := range p.AllFns {
		if !inModule(fn) || fn.Name() == "init" {
			continue
		}
		for _, b := range fn.Blocks {
			for _, ins := range b.Instrs {
				if st, ok := ins.(*ssa.Store); ok {
					a := st.Addr
					for i := 0; i < 3; i++ {
						if ia, ok := a.(*ssa.IndexAddr); ok {
							a = ia.X
						}
					}
					if a == ssa.Value(g) {
						return out
					}
				}
			}
		}
	}
	for _, f := range pk.Syntax {
		for _, d := range f.Decls {
			gd, ok := d.(*ast.GenDecl)
			if !ok || gd.Tok != token.VAR {
				continue
			}
			for _, sp := range gd.Specs {
				vs := sp.(*ast.ValueSpec)
				for i, nm := range vs.Names {
					if pk.TypesInfo.Defs[nm] != g.Object() || i >= len(vs.Values) {
						continue
					}
					cl, ok := vs.Values[i].(*ast.CompositeLit)
					if !ok {
						return out
					}
					next := int64(0)
					for _, e := range cl.Elts {
						val := e
						if kv, ok := e.(*ast.KeyValueExpr); ok {
							tv, ok := pk.TypesInfo.Types[kv.Key]
							if !ok || tv.Value == nil {
								return map[int64]int64{}
							}
							k, _ := constant.Int64Val(constant.ToInt(tv.Value))
							next = k
							val = kv.Value
						}
						tv, ok := pk.TypesInfo.Types[val]
						if !ok || tv.Value == nil {
							return map[int64]int64{}
						}
						v, _ := constant.Int64Val(constant.ToInt(tv.Value))
						out[next] = v
						next++
					}
				}
			}
		}
	}
	return out
}

// runeMapLiteral: the constant entries of the map value m (a MakeMap in the
// same function, or a package variable assigned one MakeMap by the package
// initialiser and never written elsewhere).
func runeMapLiteral(p *Prog, m ssa.Value) map[int64]int64 {
	out := map[int64]int64{}
	var mk *ssa.MakeMap
	switch x := m.(type) {
	case *ssa.MakeMap:
		mk = x
	case *ssa.UnOp:
		g, ok := x.X.(*ssa.Global)
		if !ok {
			return out
		}
		n := 0
		for fn := range p.AllFns {
			if !inModule(fn) {
				continue
			}
			for _, b := range fn.Blocks {
				for _, ins := range b.Instrs {
					if st, ok := ins.(*ssa.Store); ok && st.Addr == ssa.Value(g) {
						n++
						if mm, ok := st.Val.(*ssa.MakeMap); ok && fn.Name() == "init" {
							mk = mm
						}
					}
				}
			}
		}
		if n != 1 {
			return out
		}
	}
	if mk == nil {
		return out
	}
	for _, r := range *mk.Referrers() {
		switch u := r.(type) {
		case *ssa.MapUpdate:
			k, ok1 := constInt(u.Key)
			v, ok2 := constInt(u.Value)
			if !ok1 || !ok2 {
				return map[int64]int64{} // a non-constant entry: not a literal table
			}
			out[k] = v
		case *ssa.Lookup, *ssa.Store, *ssa.DebugRef:
		default:
			if _, isCall := r.(ssa.CallInstruction); isCall {
				return map[int64]int64{} // escapes
			}
		}
	}
	return out
}

// takesOnly: fn's only input is a value of the named type, as receiver or as
// its single parameter.
func takesOnly(fn *ssa.Function, t *types.Named) bool {
	sig := fn.Signature
	if sig.Recv() != nil {
		return namedOf(sig.Recv().Type()) == t && sig.Params().Len() == 0
	}
	return sig.Params().Len() == 1 && namedOf(sig.Params().At(0).Type()) == t
}
