package main

import (
	"fmt"
	"go/types"
	"sort"
	"strings"

	"golang.org/x/tools/go/ssa"
)

func isContextType(t types.Type) bool {
	n, ok := t.(*types.Named)
	return ok && n.Obj().Pkg() != nil && n.Obj().Pkg().Path() == "context" && n.Obj().Name() == "Context"
}

func takesContext(fn *ssa.Function) bool {
	for _, q := range fn.Params {
		if isContextType(q.Type()) {
			return true
		}
	}
	return false
}

// pollOf returns the non-blocking select on ctx.Done() of fn, if any.
func pollOf(fn *ssa.Function) *ssa.Select {
	for _, b := range fn.Blocks {
		for _, ins := range b.Instrs {
			sel, ok := ins.(*ssa.Select)
			if !ok || sel.Blocking {
				continue
			}
			for _, st := range sel.States {
				if c, ok := st.Chan.(*ssa.Call); ok && c.Call.IsInvoke() && c.Call.Method.Name() == "Done" && isContextType(c.Call.Value.Type()) {
					return sel
				}
			}
		}
	}
	return nil
}

// pollSite: the instruction at which fn polls its context: its own
// non-blocking select, or a call to a poll helper (a module function that
// holds such a select and returns an error) on fn's own context whose non-nil
// result is returned at once together with the failed status.
func (p *Prog) pollSite(fn *ssa.Function) ssa.Instruction {
	if sel := pollOf(fn); sel != nil {
		return sel
	}
	if p.pairKind(fn.Signature) != "status" {
		return nil
	}
	for _, b := range fn.Blocks {
		for _, ins := range b.Instrs {
			c, ok := ins.(*ssa.Call)
			if !ok {
				continue
			}
			h := c.Call.StaticCallee()
			if h == nil || !inModule(h) || pollOf(h) == nil || h.Signature.Results().Len() != 1 || !isErrorType(h.Signature.Results().At(0).Type()) {
				continue
			}
			own := false
			for _, a := range c.Call.Args {
				if q, ok := a.(*ssa.Parameter); ok && q.Parent() == fn && isContextType(q.Type()) {
					own = true
				}
			}
			if !own {
				continue
			}
			// if err != nil { return failed, err }
			for _, r := range *c.Referrers() {
				bo, ok := r.(*ssa.BinOp)
				if !ok || !isNilConst(bo.Y) || bo.X != ssa.Value(c) {
					continue
				}
				for _, r2 := range *bo.Referrers() {
					iff, ok := r2.(*ssa.If)
					if !ok {
						continue
					}
					t := iff.Block().Succs[0]
					if bo.Op.String() == "==" {
						t = iff.Block().Succs[1]
					} else if bo.Op.String() != "!=" {
						continue
					}
					ret, ok := t.Instrs[len(t.Instrs)-1].(*ssa.Return)
					if !ok || len(ret.Results) != 2 {
						continue
					}
					k, isC := constInt(stripConv(unspill(t, ret, ret.Results[0])))
					if isC && k == constOf(p.A.StatusFailed) && stripConv(unspill(t, ret, ret.Results[1])) == ssa.Value(c) {
						return c
					}
				}
			}
		}
	}
	return nil
}

var rulePoll = &Rule{
	Name: "R-POLL", NeedSSA: true,
	Doc: "among the functions of package exec that take a context.Context, every call-graph cycle contains a function that polls ctx.Done() with a non-blocking select (so data-driven recursion cannot run unboundedly after cancellation); in the node dispatcher the poll is in the entry block, before the dispatch switch",
	Run: func(p *Prog) *RuleOut {
		out := newOut("R-POLL")
		var fns []*ssa.Function
		in := map[*ssa.Function]bool{}
		for _, fn := range p.execFuncs() {
			if takesContext(fn) {
				fns = append(fns, fn)
				in[fn] = true
			}
		}
		out.Counts["context_taking_functions"] = len(fns)
		out.Floors["context_taking_functions"] = 13
		polls := map[*ssa.Function]bool{}
		for _, fn := range fns {
			if p.pollSite(fn) != nil {
				polls[fn] = true
			}
		}
		out.Counts["polling_functions"] = len(polls)
		out.Floors["polling_functions"] = 1
		// graph without the polling functions; edges through bound-method
		// wrappers and callbacks are resolved by the call graph
		succ := func(fn *ssa.Function) []*ssa.Function {
			var out []*ssa.Function
			seen := map[*ssa.Function]bool{}
			var visit func(f *ssa.Function, depth int)
			visit = func(f *ssa.Function, depth int) {
				n := p.CG.Nodes[f]
				if n == nil {
					return
				}
				for _, e := range n.Out {
					c := e.Callee.Func
					if seen[c] {
						continue
					}
					seen[c] = true
					if in[c] {
						out = append(out, c)
					} else if inModule(c) && depth < 3 {
						// wrappers ($bound, $thunk) and context-free helpers
						visit(c, depth+1)
					}
				}
			}
			visit(fn, 0)
			sort.Slice(out, func(i, j int) bool { return out[i].String() < out[j].String() })
			return out
		}
		// Tarjan SCC on non-polling functions
		index := map[*ssa.Function]int{}
		low := map[*ssa.Function]int{}
		onst := map[*ssa.Function]bool{}
		var stack []*ssa.Function
		idx := 0
		var sccs [][]*ssa.Function
		var strong func(v *ssa.Function)
		strong = func(v *ssa.Function) {
			index[v], low[v] = idx, idx
			idx++
			stack = append(stack, v)
			onst[v] = true
			for _, w := range succ(v) {
				if polls[w] {
					continue
				}
				if _, ok := index[w]; !ok {
					strong(w)
					if low[w] < low[v] {
						low[v] = low[w]
					}
				} else if onst[w] && index[w] < low[v] {
					low[v] = index[w]
				}
			}
			if low[v] == index[v] {
				var comp []*ssa.Function
				for {
					w := stack[len(stack)-1]
					stack = stack[:len(stack)-1]
					onst[w] = false
					comp = append(comp, w)
					if w == v {
						break
					}
				}
				sccs = append(sccs, comp)
			}
		}
		for _, fn := range fns {
			if polls[fn] {
				continue
			}
			if _, ok := index[fn]; !ok {
				strong(fn)
			}
		}
		ncyc := 0
		for _, comp := range sccs {
			cyc := len(comp) > 1
			if !cyc {
				for _, w := range succ(comp[0]) {
					if w == comp[0] {
						cyc = true
					}
				}
			}
			if !cyc {
				continue
			}
			if ok, why := p.astBounded(comp, in); ok {
				var names []string
				for _, f := range comp {
					names = append(names, fnName(f))
				}
				sort.Strings(names)
				out.ok("cycle bounded by the path: "+strings.Join(names, " ↔ "), p.pos(comp[0].Pos()), names[0], why)
				continue
			}
			ncyc++
			var names []string
			for _, f := range comp {
				names = append(names, fnName(f))
			}
			sort.Strings(names)
			out.viol("cycle without a poll: "+strings.Join(names, " ↔ "), p.pos(comp[0].Pos()), names[0],
				"these functions can call each other, passing the same syntax node down (recursion driven by the document, not by the path), without any of them polling ctx.Done(): after cancellation the traversal runs to completion and may return a full result", names...)
		}
		// every cycle of the full graph goes through a poller: report the pollers
		for fn := range polls {
			sel := p.pollSite(fn)
			key := "poll in " + fnName(fn)
			how := "non-blocking select on ctx.Done()"
			if c, ok := sel.(*ssa.Call); ok {
				how = "poll through " + calleeName(&c.Call) + " (non-blocking select on ctx.Done(); a non-nil result is returned at once with the failed status)"
			}
			if p.pairKind(fn.Signature) != "status" {
				continue // a poll helper: judged where it is used
			}
			if sel.Block() == fn.Blocks[0] || sel.Block().Dominates(fn.Blocks[len(fn.Blocks)-1]) && dominatesAllCalls(fn, sel) {
				out.ok(key, p.pos(sel.Pos()), fnName(fn), how+" before any evaluation call")
			} else if dominatesAllCalls(fn, sel) {
				out.ok(key, p.pos(sel.Pos()), fnName(fn), how+" dominates every evaluation call")
			} else {
				out.viol(key, p.pos(sel.Pos()), fnName(fn), "the poll does not precede every evaluation call of this function")
			}
		}
		if d := p.ssaOf(p.A.Dispatcher); d == nil || !polls[d] {
			out.viol("dispatcher polls", "-", "", "the node dispatcher does not poll ctx.Done()")
		}
		out.Counts["unpolled_cycles"] = ncyc
		out.note("polling functions: %s", fmt.Sprint(len(polls)))
		return out
	},
}

// dominatesAllCalls: the select precedes every call to a context-taking
// module function in fn.
func dominatesAllCalls(fn *ssa.Function, sel ssa.Instruction) bool {
	for _, b := range fn.Blocks {
		for _, ins := range b.Instrs {
			ci, ok := ins.(ssa.CallInstruction)
			if !ok {
				continue
			}
			sc := ci.Common().StaticCallee()
			if sc == nil || !inModule(sc) || !takesContext(sc) {
				continue
			}
			if ins == sel {
				continue
			}
			if !before(sel, ins) {
				return false
			}
		}
	}
	return true
}

func init() {
	register(rulePoll)
	addProp(&PropSpec{
		ID:          "C20",
		Rules:       []string{"R-POLL", "R-PAIR-P", "R-PAIR-C", "R-LAUNDER", "R-GATE", "R-HARD", "R-ENTRY", "R-ERRFIRST", "R-CTXZONE"},
		Explanation: "Cancellation as a shape of the code: every recursion cycle of the evaluator polls the context; the (status, error) pair that carries the cancellation error is coherent at every return of every evaluator function and is propagated at every call site on every unrefuted path, so it cannot become an empty/partial result, NULL, or a boolean.",
		Decided: []string{"R-POLL: every call-graph cycle among context-taking exec functions contains a poll; the dispatcher polls before dispatching",
			"R-PAIR-P: error ⇒ failed/unknown at every return of every (status|outcome, error) function",
			"R-PAIR-C / R-DROP: no call site loses or discards an error on an unrefuted path",
			"R-LAUNDER: helpers do not turn (failed, nil) into success"},
		NotDecided:  []string{"the numeric bound on steps after cancellation beyond one poll per dispatched item and traversal level", "loops over already-materialised item sequences (pairwise comparison, unwrapping) are not judged"},
		Assumptions: []string{"callee coherence is assumed at call sites and established for each callee by R-PAIR-P (mutually inductive)"},
	})
}

// astBounded: recursion inside the component is driven by the (finite,
// immutable) syntax tree, not by the document: every call between members
// passes, for each ast.Node parameter, either the caller's own node (same) or
// a strict sub-node obtained through a getter of package ast, and the calls
// that pass the same node do not form a cycle.
func (p *Prog) astBounded(comp []*ssa.Function, in map[*ssa.Function]bool) (bool, string) {
	member := map[*ssa.Function]bool{}
	for _, f := range comp {
		member[f] = true
	}
	sameEdges := map[*ssa.Function][]*ssa.Function{}
	nstrict := 0
	for _, f := range comp {
		for _, b := range f.Blocks {
			for _, ins := range b.Instrs {
				ci, ok := ins.(ssa.CallInstruction)
				if !ok {
					continue
				}
				sc := ci.Common().StaticCallee()
				if sc == nil || !member[sc] {
					// dynamic calls into the component are not understood
					if sc == nil {
						if n := p.CG.Nodes[f]; n != nil {
							for _, e := range n.Out {
								if e.Site == ci && member[e.Callee.Func] {
									return false, ""
								}
							}
						}
					}
					continue
				}
				strict, same, other := 0, 0, 0
				for i, a := range ci.Common().Args {
					if i >= len(sc.Params) || !(types.Identical(sc.Params[i].Type(), p.A.Node) || isNodeKindPtr(p, sc.Params[i].Type())) {
						continue
					}
					switch p.nodeArgRelation(f, a) {
					case "strict":
						strict++
					case "same":
						same++
					default:
						other++
					}
				}
				if other > 0 || strict+same == 0 {
					return false, ""
				}
				if strict == 0 {
					sameEdges[f] = append(sameEdges[f], sc)
				} else {
					nstrict++
				}
			}
		}
	}
	// same-node edges must be acyclic
	state := map[*ssa.Function]int{}
	var dfs func(f *ssa.Function) bool
	dfs = func(f *ssa.Function) bool {
		state[f] = 1
		for _, g := range sameEdges[f] {
			if state[g] == 1 {
				return false
			}
			if state[g] == 0 && !dfs(g) {
				return false
			}
		}
		state[f] = 2
		return true
	}
	for _, f := range comp {
		if state[f] == 0 && !dfs(f) {
			return false, ""
		}
	}
	return true, fmt.Sprintf("every recursive call descends to a strict sub-node of the (finite) syntax tree (%d descending call sites); depth is bounded by the size of the path, and every leaf evaluation goes through the polling dispatcher", nstrict)
}

func isNodeKindPtr(p *Prog, t types.Type) bool {
	pt, ok := t.(*types.Pointer)
	if !ok {
		return false
	}
	n, ok := pt.Elem().(*types.Named)
	return ok && p.A.ASTStructs[n]
}

// nodeArgRelation: how argument a relates to the Node-typed parameters of fn.
func (p *Prog) nodeArgRelation(fn *ssa.Function, a ssa.Value) string {
	a = stripConv(a)
	switch x := a.(type) {
	case *ssa.Parameter:
		return "same"
	case *ssa.MakeInterface:
		return p.nodeArgRelation(fn, x.X)
	case *ssa.TypeAssert:
		return p.nodeArgRelation(fn, x.X)
	case *ssa.Extract:
		if ta, ok := x.Tuple.(*ssa.TypeAssert); ok {
			return p.nodeArgRelation(fn, ta.X)
		}
	case *ssa.Call:
		sc := x.Call.StaticCallee()
		if sc != nil && fnPkgPath(sc) == pkgAST && sc.Signature.Recv() != nil && len(x.Call.Args) == 1 {
			if r := p.nodeArgRelation(fn, x.Call.Args[0]); r == "same" || r == "strict" {
				return "strict"
			}
		}
		if x.Call.IsInvoke() && types.Identical(x.Call.Value.Type(), p.A.Node) && len(x.Call.Args) == 0 {
			if r := p.nodeArgRelation(fn, x.Call.Value); r == "same" || r == "strict" {
				return "strict"
			}
		}
	}
	return "other"
}
