package main

// R-SUBBOUNDS (C07, C14): the bounds of a subscript, as a decision procedure.
//
// The function that evaluates one subscript `[from to to]` against an array of
// n elements is small and total over (from, to, n, strictness): where
// structural errors are not ignored it must fail exactly when from < 0, or
// from > to, or to >= n; otherwise it returns (max(from,0), min(to,n-1)). Its
// table is extracted (the two bound evaluations become integer atoms over a
// small grid that contains every ordering of from, to, 0 and n-1) and compared
// cell by cell.

import (
	"fmt"
	"go/types"
	"sort"
	"strings"

	"golang.org/x/tools/go/ssa"
)

var ruleSubBounds = &Rule{
	Name: "R-SUBBOUNDS", NeedSSA: true,
	Doc: "the subscript-bounds function (the executor method returning (int, int, error) that receives the array size) is a total decision procedure over (from, to, size, ignore-structural-errors): on the grid from,to ∈ {−2..3}, size ∈ {0..3} its extracted table fails exactly where errors are not ignored and (from < 0 ∨ from > to ∨ to ≥ size), and otherwise returns (max(from,0), min(to,size−1)) with a nil error",
	Run: func(p *Prog) *RuleOut {
		out := newOut("R-SUBBOUNDS")
		var fn *ssa.Function
		var sizeP *ssa.Parameter
		for _, f := range p.execFuncs() {
			if !isMethodOfExecutor(p, f) {
				continue
			}
			rs := f.Signature.Results()
			if rs.Len() != 3 || !lastIsError(f.Signature) {
				continue
			}
			isInt := func(t types.Type) bool { b, ok := t.Underlying().(*types.Basic); return ok && b.Kind() == types.Int }
			if !isInt(rs.At(0).Type()) || !isInt(rs.At(1).Type()) {
				continue
			}
			for _, q := range f.Params {
				if isInt(q.Type()) {
					fn, sizeP = f, q
				}
			}
		}
		if fn == nil {
			out.undecided("subscript bounds function", "-", "", "anchor unresolved: executor method returning (int, int, error) with an int parameter")
			return out
		}
		ignore := p.ignoreField()
		grid := []int64{-2, -1, 0, 1, 2, 3}
		tx, rows := p.extractTable(fn, nil, &TableCfg{MaxPaths: 4000, IntDomain: func(v ssa.Value) []int64 {
			if v == ssa.Value(sizeP) {
				return []int64{0, 1, 2, 3}
			}
			if b, ok := v.Type().Underlying().(*types.Basic); ok && b.Kind() == types.Int {
				if ex, ok := v.(*ssa.Extract); ok {
					if _, ok := ex.Tuple.(*ssa.Call); ok && ex.Index == 0 {
						return grid
					}
				}
			}
			return nil
		}})
		if tx.over {
			out.undecided("table of "+fnName(fn), p.pos(fn.Pos()), fnName(fn), "too many paths")
			return out
		}
		// the bound atoms: int results of calls, in order of appearance
		type batom struct {
			key string
			pos int
		}
		var bounds []batom
		ignoreAtom := ""
		for k, ai := range tx.atoms {
			if ai.Call != nil && ai.Index == 0 && ai.Kind == "int" && ai.Val != nil && types.Identical(ai.Val.Type(), types.Typ[types.Int]) {
				bounds = append(bounds, batom{k, int(ai.Call.Pos())})
			}
			if ignore != nil && ai.Val != nil {
				if u, ok := ai.Val.(*ssa.UnOp); ok {
					if f, _ := p.execFieldOf(u.X); f == ignore {
						ignoreAtom = k
					}
				}
			}
		}
		sort.Slice(bounds, func(i, j int) bool { return bounds[i].pos < bounds[j].pos })
		if len(bounds) == 0 || len(bounds) > 2 || ignoreAtom == "" {
			// the bounds do not reach the tests as SSA values (they are kept in
			// a struct, or tested in a helper): the rule abstains rather than
			// guess; index safety is still decided by R-BCE-EXEC's clamp argument
			out.ok("decision table of the subscript bounds", p.pos(fn.Pos()), fnName(fn), fmt.Sprintf("ABSTAINS: the two bounds and the structural-error flag are not all visible as values of this function (found %d bound evaluations, flag %q); nothing is decided here", len(bounds), ignoreAtom))
			out.note("R-SUBBOUNDS abstained on %s", fnName(fn))
			return out
		}
		ncell := 0
		var probs []string
		seen := map[string]bool{}
		for _, r := range rows {
			if r.Loop != nil || len(r.Out) != 3 {
				continue
			}
			names := tx.atomsOf(append([]*Term{r.Out[0], r.Out[1], r.Out[2]}, guardTerms(r)...)...)
			// which bound evaluations did the path execute?
			hasTo := false
			for _, c := range r.Calls {
				if len(bounds) == 2 && tx.atoms[bounds[1].key].Call == c {
					hasTo = true
				}
			}
			need := []string{bounds[0].key, ignoreAtom, sizeP.Name()}
			if hasTo {
				need = append(need, bounds[1].key)
			}
			for _, nm := range need {
				found := false
				for _, x := range names {
					if x == nm {
						found = true
					}
				}
				if !found {
					names = append(names, nm)
				}
			}
			for _, as := range tx.models(r, names) {
				ev := tx.eval(r.Out[2], as, 0)
				if ev.Kind == "ref" && !strings.HasPrefix(ev.Ref, "fresh:") {
					continue // an error of a bound evaluation, handed on
				}
				from, okF := as[bounds[0].key]
				to := from
				okT := true
				if hasTo {
					to, okT = as[bounds[1].key]
				}
				size, okS := as[sizeP.Name()]
				ign, okI := as[ignoreAtom]
				if !okF || !okT || !okS || !okI {
					continue
				}
				// only paths on which the bounds were obtained
				executedFrom := false
				for _, c := range r.Calls {
					if tx.atoms[bounds[0].key].Call == c {
						executedFrom = true
					}
				}
				if !executedFrom {
					continue
				}
				ncell++
				wantErr := ign == 0 && (from < 0 || from > to || to >= size)
				cell := fmt.Sprintf("from=%d to=%d size=%d ignore=%v", from, to, size, ign != 0)
				gotErr := ev.Kind == "ref"
				if ev.Kind != "ref" && ev.Kind != "nil" {
					if !seen["err"] {
						seen["err"] = true
						probs = append(probs, cell+": the error result is not understood")
					}
					continue
				}
				switch {
				case wantErr && !gotErr:
					k := "missing"
					if !seen[k] {
						seen[k] = true
						probs = append(probs, cell+": no error although structural errors are not ignored and the range is out of bounds (from < 0, from > to or to ≥ size)")
					}
				case !wantErr && gotErr:
					k := "spurious"
					if !seen[k] {
						seen[k] = true
						probs = append(probs, cell+": an error although the range is within bounds or structural errors are ignored")
					}
				case !wantErr:
					lo, hi := tx.eval(r.Out[0], as, 0), tx.eval(r.Out[1], as, 0)
					wlo, whi := from, to
					if wlo < 0 {
						wlo = 0
					}
					if whi > size-1 {
						whi = size - 1
					}
					if lo.Kind != "int" || hi.Kind != "int" || lo.K != wlo || hi.K != whi {
						k := "clamp"
						if !seen[k] {
							seen[k] = true
							probs = append(probs, fmt.Sprintf("%s: returns (%v, %v), expected (%d, %d)", cell, lo.K, hi.K, wlo, whi))
						}
					}
				}
			}
		}
		out.Counts["subscript_bound_cells"] = ncell
		out.Floors["subscript_bound_cells"] = 200
		key := "decision table of the subscript bounds"
		if len(probs) == 0 {
			out.ok(key, p.pos(fn.Pos()), fnName(fn), fmt.Sprintf("%d cells: fails exactly where errors are not ignored and the range leaves the array or is empty; otherwise clamps", ncell))
		} else {
			out.viol(key, p.pos(fn.Pos()), fnName(fn), fmt.Sprintf("%d cells; %s", ncell, probs[0]), probs...)
		}
		return out
	},
}

func init() { register(ruleSubBounds) }
