package main

// E10: numeric guard lints over SSA instructions on item-derived numbers.

import (
	"fmt"
	"go/constant"
	"go/token"
	"go/types"
	"sort"
	"strings"

	"golang.org/x/tools/go/ssa"
)

func isInt64(t types.Type) bool {
	b, ok := t.Underlying().(*types.Basic)
	return ok && b.Kind() == types.Int64
}
func isFloat64(t types.Type) bool {
	b, ok := t.Underlying().(*types.Basic)
	return ok && b.Kind() == types.Float64
}

// numTaint: int64/float64 values derived from items (type assertions of item
// values, json.Number conversions, string conversions), propagated through
// arithmetic, phis, conversions and calls inside package exec.
func (p *Prog) numTaint() map[ssa.Value]bool {
	if p.taint != nil {
		return p.taint
	}
	t := map[ssa.Value]bool{}
	fns := p.execFuncs()
	for fn := range p.AllFns {
		if fnPkgPath(fn) == pkgExec && fn.Blocks != nil && fn.Synthetic != "" {
			fns = append(fns, fn)
		}
	}
	isSrcCall := func(c *ssa.Call) bool {
		q := calleeQualified(&c.Call)
		switch q {
		case "strconv.ParseFloat", "strconv.ParseInt":
			return true
		}
		if sc := c.Call.StaticCallee(); sc != nil && fnPkgPath(sc) == "encoding/json" && (sc.Name() == "Int64" || sc.Name() == "Float64") {
			return true
		}
		return false
	}
	num := func(v ssa.Value) bool { return isInt64(v.Type()) || isFloat64(v.Type()) }
	for changed := true; changed; {
		changed = false
		mark := func(v ssa.Value) {
			if v != nil && num(v) && !t[v] {
				t[v] = true
				changed = true
			}
		}
		for _, fn := range fns {
			for _, b := range fn.Blocks {
				for _, ins := range b.Instrs {
					switch x := ins.(type) {
					case *ssa.TypeAssert:
						if !x.CommaOk && num(x) {
							mark(x)
						}
					case *ssa.Extract:
						switch tu := x.Tuple.(type) {
						case *ssa.TypeAssert:
							if x.Index == 0 {
								mark(x)
							}
						case *ssa.Call:
							if x.Index == 0 && isSrcCall(tu) {
								mark(x)
							}
							// tainted result of a module callee
							for _, f := range p.calleesOf(tu) {
								if fnPkgPath(f) != pkgExec || f.Blocks == nil {
									continue
								}
								for _, r := range returnsOf(f) {
									if x.Index < len(r.Results) && t[stripConv(r.Results[x.Index])] {
										mark(x)
									}
								}
							}
						}
					case *ssa.Phi:
						for _, e := range x.Edges {
							if t[e] {
								mark(x)
							}
						}
					case *ssa.Convert:
						if t[x.X] {
							mark(x)
						}
					case *ssa.BinOp:
						if t[x.X] || t[x.Y] {
							mark(x)
						}
					case *ssa.UnOp:
						if t[x.X] {
							mark(x)
						}
					case *ssa.Call:
						for _, f := range p.calleesOf(x) {
							if f.Blocks == nil {
								continue
							}
							if fnPkgPath(f) == pkgExec {
								for pi, q := range f.Params {
									if a := argForParam(&x.Call, pi); a != nil && t[a] {
										mark(q)
									}
								}
								if f.Signature.Results().Len() == 1 {
									for _, r := range returnsOf(f) {
										if t[stripConv(r.Results[0])] {
											mark(x)
										}
									}
								}
							} else if fnPkgPath(f) == "math" {
								for _, a := range x.Call.Args {
									if t[a] {
										mark(x)
									}
								}
							}
						}
					}
				}
			}
		}
	}
	p.taint = t
	return t
}

// isOverflowPredicate: a module function returning a single bool that takes at
// least two int64 parameters: the role of "does lhs op rhs overflow?".
func isOverflowPredicate(fn *ssa.Function) bool {
	if fn == nil || fnPkgPath(fn) != pkgExec || fn.Signature.Results().Len() != 1 {
		return false
	}
	if b, ok := fn.Signature.Results().At(0).Type().(*types.Basic); !ok || b.Kind() != types.Bool {
		return false
	}
	n := 0
	for _, q := range fn.Params {
		if isInt64(q.Type()) {
			n++
		}
	}
	return n >= 2
}

// intCompareFact: facts contain `v op const` with the given truth; returns the
// constants by operator.
type bound struct {
	op    token.Token
	k     float64
	truth bool
}

func boundsOn(fs []Fact, v ssa.Value) []bound {
	var out []bound
	for _, f := range fs {
		bo, ok := f.Cond.(*ssa.BinOp)
		if !ok {
			continue
		}
		op := bo.Op
		var c *ssa.Const
		switch {
		case sameValue(bo.X, v):
			c, _ = bo.Y.(*ssa.Const)
		case sameValue(bo.Y, v):
			c, _ = bo.X.(*ssa.Const)
			// flip
			switch op {
			case token.LSS:
				op = token.GTR
			case token.GTR:
				op = token.LSS
			case token.LEQ:
				op = token.GEQ
			case token.GEQ:
				op = token.LEQ
			}
		}
		if c == nil || c.Value == nil {
			continue
		}
		fv, _ := constant.Float64Val(constant.ToFloat(c.Value))
		out = append(out, bound{op, fv, f.Truth})
	}
	return out
}

// rangeLimited: facts bound v from above by hi (exclusive) and from below by
// lo (inclusive): returns whether both hold.
func rangeLimited(fs []Fact, v ssa.Value, lo, hi float64) (okLo, okHi bool) {
	for _, b := range boundsOn(fs, v) {
		switch {
		case b.op == token.GTR && !b.truth: // v <= k
			if b.k < hi {
				okHi = true
			}
		case b.op == token.GEQ && !b.truth: // v < k
			if b.k <= hi {
				okHi = true
			}
		case b.op == token.LSS && !b.truth: // v >= k
			if b.k >= lo {
				okLo = true
			}
		case b.op == token.LEQ && !b.truth: // v > k
			if b.k >= lo {
				okLo = true
			}
		case b.op == token.LSS && b.truth: // v < k
			if b.k <= hi {
				okHi = true
			}
		case b.op == token.LEQ && b.truth: // v <= k
			if b.k < hi {
				okHi = true
			}
		case b.op == token.GTR && b.truth: // v > k
			if b.k >= lo {
				okLo = true
			}
		case b.op == token.GEQ && b.truth:
			if b.k >= lo {
				okLo = true
			}
		}
	}
	return
}

// finiteFact: facts say math.IsInf(v, ·) is false and math.IsNaN(v) is false.
func finiteFact(fs []Fact, v ssa.Value) bool {
	inf, nan := false, false
	for _, f := range fs {
		c, ok := f.Cond.(*ssa.Call)
		if !ok || f.Truth {
			continue
		}
		switch calleeQualified(&c.Call) {
		case "math.IsInf":
			if sameValue(c.Call.Args[0], v) {
				inf = true
			}
		case "math.IsNaN":
			if sameValue(c.Call.Args[0], v) {
				nan = true
			}
		}
	}
	return inf && nan
}

var finitePreserving = map[string]bool{"math.Round": true, "math.Floor": true, "math.Ceil": true, "math.Abs": true, "math.Trunc": true, "math.RoundToEven": true}
var riskyFloatCalls = map[string]bool{"math.Mod": true, "math.Pow10": true, "math.Pow": true, "math.Exp": true, "math.Inf": true, "math.NaN": true, "math.Log": true, "math.Sqrt": true}

// floatChain walks back from a float value through finiteness-preserving
// operations; it returns the values on the linear chain (candidates for a
// guard) and the risky sources found.
func floatChain(v ssa.Value, seen map[ssa.Value]bool, chain *[]ssa.Value, risky *[]ssa.Value, linear bool) {
	v = stripConv(v)
	if seen[v] {
		return
	}
	seen[v] = true
	if linear {
		*chain = append(*chain, v)
	}
	switch x := v.(type) {
	case *ssa.MakeInterface:
		floatChain(x.X, seen, chain, risky, linear)
	case *ssa.Convert:
		// an integer made from a double is not a double (R-F2I judges that step)
		if isFloat64(x.X.Type()) && isFloat64(x.Type()) {
			floatChain(x.X, seen, chain, risky, linear)
		}
	case *ssa.Phi:
		for _, e := range x.Edges {
			floatChain(e, seen, chain, risky, false)
		}
	case *ssa.UnOp:
		if x.Op == token.SUB {
			floatChain(x.X, seen, chain, risky, linear)
		}
	case *ssa.BinOp:
		if isFloat64(x.Type()) {
			switch x.Op {
			case token.ADD, token.SUB, token.MUL, token.QUO:
				*risky = append(*risky, x)
			}
		}
	case *ssa.Extract:
		if c, ok := x.Tuple.(*ssa.Call); ok && x.Index == 0 && calleeQualified(&c.Call) == "strconv.ParseFloat" {
			*risky = append(*risky, x)
		}
		if c, ok := x.Tuple.(*ssa.Call); ok && x.Index == 0 {
			if g := c.Call.StaticCallee(); g != nil && rawFloatFns[g] && !finiteFilter(g) {
				*risky = append(*risky, x)
			}
			// json.Number.Float64 is strconv.ParseFloat: ±Inf comes with ErrRange
			if isJSONNumberFloat64(c) {
				*risky = append(*risky, x)
			}
		}
	case *ssa.Call:
		q := calleeQualified(&x.Call)
		switch {
		case finitePreserving[q]:
			floatChain(x.Call.Args[0], seen, chain, risky, linear)
		case riskyFloatCalls[q]:
			*risky = append(*risky, x)
		default:
			if g := x.Call.StaticCallee(); g != nil && rawFloatFns[g] && !finiteFilter(g) {
				*risky = append(*risky, x)
			}
			// a callback func(float64) float64 (abs, floor, ceiling handed in as
			// a value): at best it preserves finiteness, so what goes in counts
			if x.Call.StaticCallee() == nil && !x.Call.IsInvoke() && len(x.Call.Args) == 1 && isFloat64(x.Call.Args[0].Type()) && isFloat64(x.Type()) {
				floatChain(x.Call.Args[0], seen, chain, risky, false)
			}
		}
	}
}

// isJSONNumberFloat64: the call is (encoding/json.Number).Float64.
func isJSONNumberFloat64(c *ssa.Call) bool {
	g := c.Call.StaticCallee()
	if g == nil || g.Name() != "Float64" || g.Signature.Recv() == nil {
		return false
	}
	nt, ok := g.Signature.Recv().Type().(*types.Named)
	return ok && nt.Obj().Pkg() != nil && nt.Obj().Pkg().Path() == "encoding/json" && nt.Obj().Name() == "Number"
}

// rawFloatFns: unexported functions of package exec that return a computed
// double unchecked and whose callers (all static, all in the package) carry
// the obligation instead: a call of one is a risky source in its caller.
var rawFloatFns = map[*ssa.Function]bool{}

var finiteFilterMemo = map[*ssa.Function]int{}

// finiteFilter: g returns a float64 first result that, on every return, is a
// constant or a value known there to be neither Inf nor NaN (a parameter
// handed back behind `!math.IsInf(x, 0) && !math.IsNaN(x)`).
func finiteFilter(g *ssa.Function) bool {
	if r, ok := finiteFilterMemo[g]; ok {
		return r == 1
	}
	finiteFilterMemo[g] = 2
	if g == nil || g.Blocks == nil || !inModule(g) || g.Signature.Results().Len() == 0 || !isFloat64(g.Signature.Results().At(0).Type()) {
		return false
	}
	nparam := 0
	for _, r := range expandedReturns(g) {
		v := stripConv(r.Results[0])
		if _, isC := v.(*ssa.Const); isC {
			continue
		}
		if !finiteFact(r.Facts, v) {
			return false
		}
		nparam++
	}
	if nparam == 0 {
		return false
	}
	finiteFilterMemo[g] = 1
	return true
}

var ruleFinite = &Rule{
	Name: "R-FINITE", NeedSSA: true,
	Doc: "every float64 that package exec computes with + − × ÷, math.Mod, powers of ten, or strconv.ParseFloat and then returns from a function or hands to the continuation is checked with math.IsInf and math.IsNaN first (on the value itself or on a value it is derived from through rounding/negation only): no Inf or NaN can become an item",
	Run: func(p *Prog) *RuleOut {
		out := newOut("R-FINITE")
		ord := ordinals{}
		n := 0
		// movable: the obligation for what fn returns can be its callers': fn is
		// unexported and only ever called statically from package exec
		movable := func(fn *ssa.Function) bool {
			if fn.Object() == nil || fn.Object().Exported() || fn.Signature.Results().Len() == 0 || !isFloat64(fn.Signature.Results().At(0).Type()) {
				return false
			}
			nd := p.CG.Nodes[fn]
			if nd == nil || len(nd.In) == 0 {
				return false
			}
			for _, e := range nd.In {
				c, ok := e.Site.(*ssa.Call)
				if !ok || c.Call.StaticCallee() != fn || fnPkgPath(e.Caller.Func) != pkgExec {
					return false
				}
			}
			return true
		}
		quiet := true // the pre-pass only finds the raw functions
		var check func(fn *ssa.Function, v ssa.Value, blk *ssa.BasicBlock, pos token.Pos, what string)
		check = func(fn *ssa.Function, v ssa.Value, blk *ssa.BasicBlock, pos token.Pos, what string) {
			var chain, risky []ssa.Value
			floatChain(v, map[ssa.Value]bool{}, &chain, &risky, true)
			// a double parsed out of a json.Number is finite wherever the
			// parse error is known to be nil
			{
				kept := risky[:0:0]
				fs0 := factsAt(blk)
				for _, r := range risky {
					if ex, ok := r.(*ssa.Extract); ok {
						if c, ok := ex.Tuple.(*ssa.Call); ok && isJSONNumberFloat64(c) {
							if ev := extractOf(c, 1); ev != nil {
								if isNil, _ := nilFact(fs0, ev); isNil {
									continue
								}
								// … or wherever the double is used
								all, nuse := true, 0
								for _, ref := range *ex.Referrers() {
									if _, dbg := ref.(*ssa.DebugRef); dbg || ref.Block() == nil {
										continue
									}
									nuse++
									if isNil, _ := nilFact(factsAt(ref.Block()), ev); !isNil {
										all = false
									}
								}
								if all && nuse > 0 {
									continue
								}
							}
						}
					}
					kept = append(kept, r)
				}
				risky = kept
			}
			if len(risky) == 0 {
				return
			}
			key := ""
			if !quiet {
				n++
				key = fmt.Sprintf("%s: computed float %s #%d", fnName(fn), what, ord.next(fnName(fn)+what))
			}
			fs := factsAt(blk)
			for _, x := range chain {
				if isFloat64(x.Type()) && finiteFact(fs, x) {
					if !quiet {
						out.ok(key, p.pos(pos), fnName(fn), "IsInf/IsNaN rejection dominates")
					}
					return
				}
			}
			// a phi: every edge guarded on its own
			pv := stripConv(v)
			if mi, ok := pv.(*ssa.MakeInterface); ok {
				pv = stripConv(mi.X)
			}
			if ph, ok := pv.(*ssa.Phi); ok {
				all := true
				for i, e := range ph.Edges {
					var c2, r2 []ssa.Value
					floatChain(e, map[ssa.Value]bool{}, &c2, &r2, true)
					if len(r2) == 0 {
						continue
					}
					pred := ph.Block().Preds[i]
					efs := edgeFacts(pred, succIndex(pred, ph.Block()))
					g := false
					for _, x := range c2 {
						if isFloat64(x.Type()) && finiteFact(efs, x) {
							g = true
						}
					}
					if !g {
						all = false
					}
				}
				if all {
					if !quiet {
						out.ok(key, p.pos(pos), fnName(fn), "every incoming computed value is checked with IsInf/IsNaN")
					}
					return
				}
			}
			if what == "returned" && isFloat64(v.Type()) && movable(fn) {
				if quiet {
					rawFloatFns[fn] = true
				} else {
					out.ok(key, p.pos(pos), fnName(fn), "the raw result of an unexported helper: its callers carry the check (the call is a computed value there)")
				}
				return
			}
			if quiet {
				return
			}
			var srcs []string
			for _, r := range risky {
				srcs = append(srcs, p.pos(r.Pos()))
			}
			sort.Strings(srcs)
			out.viol(key, p.pos(pos), fnName(fn), "a computed double can be +Inf, -Inf or NaN and is "+what+" without a finiteness check (computed at "+strings.Join(uniq(srcs), ", ")+")")
		}
		// pre-pass: which helpers hand a raw result to their callers (to a fixpoint:
		// a caller that passes it on unchecked is raw too)
		for k := range rawFloatFns {
			delete(rawFloatFns, k)
		}
		for iter := 0; iter < 4; iter++ {
			before := len(rawFloatFns)
			for _, fn := range p.execFuncs() {
				for _, r := range returnsOf(fn) {
					if len(r.Results) > 0 && isFloat64(r.Results[0].Type()) {
						check(fn, r.Results[0], r.Instr.Block(), r.Instr.Pos(), "returned")
					}
				}
			}
			if len(rawFloatFns) == before {
				break
			}
		}
		quiet = false
		out.Counts["helpers_returning_a_raw_result"] = len(rawFloatFns)
		for _, fn := range p.execFuncs() {
			for _, r := range returnsOf(fn) {
				for _, v := range r.Results {
					if isFloat64(v.Type()) || types.IsInterface(v.Type()) && !isErrorType(v.Type()) {
						// a parsed double handed back together with its parse error
						// (`f, err := num.Float64(); return f, err`) is the caller's to check
						if ex, ok := stripConvPlain(v).(*ssa.Extract); ok {
							if c, ok := ex.Tuple.(*ssa.Call); ok && isJSONNumberFloat64(c) {
								withErr := false
								for _, o := range r.Results {
									if oe, ok := stripConvPlain(o).(*ssa.Extract); ok && oe.Tuple == ex.Tuple && oe.Index == 1 {
										withErr = true
									}
								}
								if withErr {
									continue
								}
							}
						}
						check(fn, v, r.Instr.Block(), r.Instr.Pos(), "returned")
					}
				}
			}
			for _, b := range fn.Blocks {
				for _, ins := range b.Instrs {
					c, ok := ins.(*ssa.Call)
					if !ok {
						continue
					}
					sig := calleeSig(c)
					isCont := sig != nil && p.pairKind(sig) != ""
					isAppend := c.Call.StaticCallee() != nil && c.Call.StaticCallee().Signature.Recv() != nil && namedOf(c.Call.StaticCallee().Signature.Recv().Type()) == p.A.ValueList
					if !isCont && !isAppend {
						continue
					}
					for _, a := range c.Call.Args {
						if it, ok := a.Type().Underlying().(*types.Interface); ok && it.NumMethods() == 0 {
							check(fn, a, b, c.Pos(), "handed on as an item")
						}
					}
				}
			}
		}
		out.Counts["computed_floats_leaving_a_function"] = n
		out.Floors["computed_floats_leaving_a_function"] = 1
		return out
	},
}

var ruleDiv = &Rule{
	Name: "R-DIV", NeedSSA: true,
	Doc: "every integer / and % on item-derived operands is dominated by a test that the divisor is not zero (otherwise the program panics); every float / and math.Mod is dominated by such a test or its result is finiteness-checked (R-FINITE); the zero branch returns a suppressible error",
	Run: func(p *Prog) *RuleOut {
		out := newOut("R-DIV")
		t := p.numTaint()
		ee := p.errors()
		ord := ordinals{}
		n := 0
		for _, fn := range p.execFuncs() {
			for _, b := range fn.Blocks {
				for _, ins := range b.Instrs {
					var div ssa.Value
					var what string
					isInt := false
					switch x := ins.(type) {
					case *ssa.BinOp:
						if x.Op != token.QUO && x.Op != token.REM {
							continue
						}
						if _, isConst := x.Y.(*ssa.Const); isConst {
							continue
						}
						if !t[x.Y] && !t[x.X] {
							continue
						}
						div, what = x.Y, x.Op.String()
						bt, _ := x.Type().Underlying().(*types.Basic)
						isInt = bt != nil && bt.Info()&types.IsInteger != 0
					case *ssa.Call:
						if calleeQualified(&x.Call) != "math.Mod" || !t[x.Call.Args[1]] {
							continue
						}
						div, what = x.Call.Args[1], "math.Mod"
					default:
						continue
					}
					n++
					key := fmt.Sprintf("%s: %s #%d", fnName(fn), what, ord.next(fnName(fn)+what))
					guarded := false
					var zeroBlk *ssa.BasicBlock
					for cur := b; cur != nil; cur = cur.Idom() {
						if len(cur.Preds) != 1 {
							continue
						}
						pr := cur.Preds[0]
						iff, ok := pr.Instrs[len(pr.Instrs)-1].(*ssa.If)
						if !ok {
							continue
						}
						bo, ok := iff.Cond.(*ssa.BinOp)
						if !ok || !sameValue(bo.X, div) {
							continue
						}
						c, ok := bo.Y.(*ssa.Const)
						if !ok || c.Value == nil {
							continue
						}
						if fv, _ := constant.Float64Val(constant.ToFloat(c.Value)); fv != 0 {
							continue
						}
						onFalse := pr.Succs[1] == cur
						if bo.Op == token.EQL && onFalse {
							guarded, zeroBlk = true, pr.Succs[0]
						}
						if bo.Op == token.NEQ && !onFalse {
							guarded, zeroBlk = true, pr.Succs[1]
						}
					}
					compound := false
					if !guarded {
						// the zero test may be one operand of a compound condition
						// (`if l == 0 || r == 0`, a case clause, a flag variable)
						for _, f := range factsAt(b) {
							bo, ok := f.Cond.(*ssa.BinOp)
							if !ok || !sameValue(bo.X, div) {
								continue
							}
							c, ok := bo.Y.(*ssa.Const)
							if !ok || c.Value == nil {
								continue
							}
							if fv, _ := constant.Float64Val(constant.ToFloat(c.Value)); fv != 0 {
								continue
							}
							if (bo.Op == token.EQL && !f.Truth) || (bo.Op == token.NEQ && f.Truth) {
								guarded, compound = true, true
							}
						}
					}
					switch {
					case guarded && compound && lastIsError(fn.Signature):
						out.ok(key, p.pos(ins.Pos()), fnName(fn), "divisor excluded from zero by a compound condition (the error class of its zero branch is not examined here)")
					case guarded && !lastIsError(fn.Signature):
						out.ok(key, p.pos(ins.Pos()), fnName(fn), "divisor tested against zero first (the function reports no errors)")
					case guarded:
						set, _ := p.classesAtReturnOn(zeroBlk, ee)
						cls := p.classNames(set)
						if len(cls) == 1 && cls[0] == "Verbose" {
							out.ok(key, p.pos(ins.Pos()), fnName(fn), "divisor tested against zero first; the zero branch returns a suppressible error")
						} else {
							out.viol(key, p.pos(ins.Pos()), fnName(fn), "division by zero is detected but reported as class "+strings.Join(cls, ",")+" instead of a suppressible error")
						}
					case !isInt:
						out.ok(key, p.pos(ins.Pos()), fnName(fn), "float division without a zero test: no panic; finiteness of the result is R-FINITE's obligation")
					default:
						out.viol(key, p.pos(ins.Pos()), fnName(fn), "integer division or modulo on item-derived operands without a zero test: a zero divisor panics")
					}
				}
			}
		}
		out.Counts["divisions_on_item_values"] = n
		out.Floors["divisions_on_item_values"] = 1
		return out
	},
}

var ruleOvf = &Rule{
	Name: "R-OVF", NeedSSA: true,
	Doc: "raw int64 + − × ÷ and unary − on item-derived operands occur only (i) inside the overflow-predicate function itself, or (ii) in a function all of whose call sites are dominated by a false answer of an overflow predicate on the same operands (binary), or by a test excluding the minimum integer (unary): an int64 result that does not fit is never silently wrapped. The arithmetic inside the predicate is a value-level matter and is not judged",
	Run: func(p *Prog) *RuleOut {
		out := newOut("R-OVF")
		t := p.numTaint()
		ord := ordinals{}
		n := 0
		npred := 0
		for _, fn := range p.execFuncs() {
			if isOverflowPredicate(fn) {
				npred++
			}
		}
		out.Counts["overflow_predicates"] = npred
		out.Floors["overflow_predicates"] = 1
		// the predicate itself must not judge in double precision: a float64
		// carries 53 bits, so a product or sum within 1024 of ±2^63 rounds onto
		// the limit and an arm that only looks at float64(operand) answers "fits"
		for _, fn := range p.execFuncs() {
			if !isOverflowPredicate(fn) {
				continue
			}
			k := 0
			for _, b := range fn.Blocks {
				for _, ins := range b.Instrs {
					cv, ok := ins.(*ssa.Convert)
					if !ok || !isInt64(cv.X.Type()) || !isFloat64(cv.Type()) {
						continue
					}
					if _, isParam := cv.X.(*ssa.Parameter); !isParam {
						continue
					}
					other := false
					for _, r := range *cv.X.Referrers() {
						if r == ssa.Instruction(cv) {
							continue
						}
						if _, dbg := r.(*ssa.DebugRef); dbg {
							continue
						}
						if c2, ok := r.(*ssa.Convert); ok && isFloat64(c2.Type()) {
							continue
						}
						rb := r.Block()
						if rb != nil && ((rb == b && instrIndex(b, r) > instrIndex(b, cv)) || (rb != b && b.Dominates(rb))) {
							other = true
						}
					}
					if !other {
						k++
						out.viol(fmt.Sprintf("%s: overflow judged in double precision #%d", fnName(fn), k), p.pos(cv.Pos()), fnName(fn), "from here on the operand is only seen as a float64: results within 1024 of ±2^63 round onto the limit (and math.MaxInt64 itself converts to 2^63), so an overflow there is reported as fitting and the int64 operation wraps")
					}
				}
			}
		}
		for _, fn := range p.execFuncs() {
			for _, b := range fn.Blocks {
				for _, ins := range b.Instrs {
					var ops []ssa.Value
					what := ""
					switch x := ins.(type) {
					case *ssa.BinOp:
						if !isInt64(x.Type()) {
							continue
						}
						switch x.Op {
						case token.ADD, token.SUB, token.MUL, token.QUO:
						default:
							continue
						}
						if !t[x.X] && !t[x.Y] {
							continue
						}
						_, cx := x.X.(*ssa.Const)
						_, cy := x.Y.(*ssa.Const)
						if cx && cy {
							continue
						}
						ops, what = []ssa.Value{x.X, x.Y}, "int64 "+x.Op.String()
					case *ssa.UnOp:
						if x.Op != token.SUB || !isInt64(x.Type()) || !t[x.X] {
							continue
						}
						ops, what = []ssa.Value{x.X}, "int64 negation"
					default:
						continue
					}
					n++
					key := fmt.Sprintf("%s: %s #%d", fnName(fn), what, ord.next(fnName(fn)+what))
					if isOverflowPredicate(fn) {
						if len(ops) == 1 && !minIntExcluded(factsAt(b), ops[0]) {
							// Wrapping +, − and × are how such a test detects overflow;
							// a negation is not: −MinInt64 is MinInt64, so reasoning
							// about −x instead of x is wrong for exactly that value.
							out.viol(key, p.pos(ins.Pos()), fnName(fn), "the overflow test negates an operand without excluding the minimum integer first: for −2⁶³ the negation wraps and the test answers for the wrong operand")
							continue
						}
						out.excepted(key, p.pos(ins.Pos()), fnName(fn), "wrapping arithmetic inside the overflow test itself")
						continue
					}
					// operands must be parameters (or constants) of fn
					var params []*ssa.Parameter
					okParams := true
					for _, o := range ops {
						switch q := o.(type) {
						case *ssa.Parameter:
							params = append(params, q)
						case *ssa.Const:
						default:
							okParams = false
						}
					}
					if !okParams {
						out.viol(key, p.pos(ins.Pos()), fnName(fn), "unchecked integer arithmetic on an item-derived value computed inside the function")
						continue
					}
					bad := p.unguardedCallSites(fn, params, len(ops) == 1)
					if len(bad) == 0 {
						out.ok(key, p.pos(ins.Pos()), fnName(fn), "every call site is dominated by an overflow test on the same operands")
					} else {
						out.viol(key, p.pos(ins.Pos()), fnName(fn), "integer arithmetic can wrap around silently: "+bad[0], bad...)
					}
				}
			}
		}
		out.Counts["raw_integer_operations_on_item_values"] = n
		out.Floors["raw_integer_operations_on_item_values"] = 2
		return out
	},
}

// unguardedCallSites: call sites of fn (static or through callbacks) that pass
// item-derived arguments for params without a dominating overflow test.
func (p *Prog) unguardedCallSites(fn *ssa.Function, params []*ssa.Parameter, unary bool) []string {
	t := p.numTaint()
	var bad []string
	seen := map[ssa.Instruction]bool{}
	var visit func(f *ssa.Function, ps []*ssa.Parameter, depth int)
	visit = func(f *ssa.Function, ps []*ssa.Parameter, depth int) {
		n := p.CG.Nodes[f]
		if n == nil || depth > 3 {
			return
		}
		for _, e := range n.In {
			if e.Site == nil || !inModule(e.Caller.Func) || seen[e.Site] {
				continue
			}
			seen[e.Site] = true
			caller := e.Caller.Func
			var args []ssa.Value
			tainted := false
			for _, q := range ps {
				a := argAt(e, paramIndex(q))
				if a == nil {
					continue
				}
				args = append(args, a)
				if t[a] {
					tainted = true
				}
			}
			if !tainted {
				continue
			}
			// wrappers forward their own parameters
			if caller.Synthetic != "" {
				var fwd []*ssa.Parameter
				for _, a := range args {
					if q, ok := a.(*ssa.Parameter); ok {
						fwd = append(fwd, q)
					}
				}
				visit(caller, fwd, depth+1)
				continue
			}
			fs := factsAt(e.Site.Block())
			guarded := false
			if unary {
				for _, a := range args {
					if minIntExcluded(fs, a) {
						guarded = true
					}
				}
			} else {
				for _, f := range fs {
					c, ok := f.Cond.(*ssa.Call)
					if !ok || f.Truth || !isOverflowPredicate(c.Call.StaticCallee()) {
						continue
					}
					all := true
					for _, a := range args {
						hit := false
						for _, pa := range c.Call.Args {
							if sameValue(pa, a) {
								hit = true
							}
						}
						if !hit {
							all = false
						}
					}
					if all {
						guarded = true
					}
				}
			}
			if !guarded {
				bad = append(bad, fmt.Sprintf("call at %s in %s is not dominated by an overflow test on its operands", p.pos(e.Site.Pos()), fnName(caller)))
			}
		}
	}
	visit(fn, params, 0)
	sort.Strings(bad)
	return bad
}

// roundTripFact: the facts say w == int64(intN(w)) for a narrower intN: w
// survives the round trip through the narrower type, so it lies in its range.
func roundTripFact(fs []Fact, w ssa.Value) bool {
	for _, f := range fs {
		bo, ok := f.Cond.(*ssa.BinOp)
		if !ok || !((bo.Op == token.EQL && f.Truth) || (bo.Op == token.NEQ && !f.Truth)) {
			continue
		}
		for _, pair := range [][2]ssa.Value{{bo.X, bo.Y}, {bo.Y, bo.X}} {
			if !sameValue(pair[0], w) {
				continue
			}
			outer, ok := pair[1].(*ssa.Convert)
			if !ok {
				continue
			}
			inner, ok := outer.X.(*ssa.Convert)
			if !ok || !sameValue(inner.X, w) {
				continue
			}
			if bt, ok := inner.Type().Underlying().(*types.Basic); ok {
				switch bt.Kind() {
				case types.Int32, types.Int16, types.Int8:
					return true
				}
			}
		}
	}
	return false
}

// rangeCheckedUses: the uses of v (through phis) that are not preceded by a
// two-sided constant range test narrower than int64. A use that returns the
// value is followed into every caller of the function.
func (p *Prog) rangeCheckedUses(v0 ssa.Value, two63 float64, depth int) (badUses []string, nuses int) {
	web := map[ssa.Value]bool{v0: true}
	for changed := true; changed; {
		changed = false
		for v := range web {
			for _, r := range *v.Referrers() {
				if ph, ok := r.(*ssa.Phi); ok && !web[ph] {
					web[ph] = true
					changed = true
				}
			}
		}
	}
	for v := range web {
		for _, r := range *v.Referrers() {
			switch x := r.(type) {
			case *ssa.Phi, *ssa.BinOp, *ssa.If, *ssa.DebugRef:
				continue
			case *ssa.Call:
				if purePredicate(x.Call.StaticCallee()) {
					continue // handed to a named test (outsideInt32(n)): a comparison, not a use
				}
			case *ssa.Convert:
				// the narrowing half of a round-trip test x == int64(int32(x))
				rt := true
				for _, u := range *x.Referrers() {
					back, ok := u.(*ssa.Convert)
					if !ok {
						rt = false
						break
					}
					for _, u2 := range *back.Referrers() {
						if bo, ok := u2.(*ssa.BinOp); !ok || (bo.Op != token.EQL && bo.Op != token.NEQ) {
							rt = false
						}
					}
				}
				if rt && len(*x.Referrers()) > 0 {
					continue
				}
			}
			nuses++
			ufs := factsAt(r.Block())
			good := false
			for w := range web {
				lo, hi := rangeLimited(ufs, w, -two63+1, two63-1025)
				if lo && hi {
					good = true
				}
				if roundTripFact(ufs, w) {
					good = true
				}
			}
			if good {
				continue
			}
			// returned: judged at the call sites
			if ret, ok := r.(*ssa.Return); ok && depth < 2 {
				fn := ret.Parent()
				idx := -1
				for i, rv := range ret.Results {
					if rv == v {
						idx = i
					}
				}
				node := p.CG.Nodes[fn]
				if idx >= 0 && node != nil && len(node.In) > 0 {
					allGood := true
					for _, e := range node.In {
						c, ok := e.Site.(*ssa.Call)
						if !ok || c.Call.StaticCallee() != fn {
							allGood = false
							break
						}
						var rv ssa.Value = c
						if len(ret.Results) > 1 {
							rv = extractOf(c, idx)
						}
						if rv == nil {
							continue // result not used
						}
						b2, n2 := p.rangeCheckedUses(rv, two63, depth+1)
						if len(b2) > 0 || n2 == 0 {
							allGood = false
							badUses = append(badUses, b2...)
						}
					}
					if allGood {
						continue
					}
				}
			}
			badUses = append(badUses, p.pos(r.Pos()))
		}
	}
	return badUses, nuses
}

var ruleF2I = &Rule{
	Name: "R-F2I", NeedSSA: true,
	Doc: "every float64 → int64 conversion in package exec is either dominated by guards that exclude every value outside int64 as evaluated in float64 (an upper test `> MaxInt64` is recognised as insufficient because the constant rounds to 2^63), or its result is compared against a narrower two-sided constant range before it is used, which rejects the wrapped/saturated outcome of every architecture",
	Run: func(p *Prog) *RuleOut {
		out := newOut("R-F2I")
		ord := ordinals{}
		n := 0
		const two63 = 9223372036854775808.0
		for _, fn := range p.execFuncs() {
			for _, b := range fn.Blocks {
				for _, ins := range b.Instrs {
					cv, ok := ins.(*ssa.Convert)
					if !ok || !isInt64(cv.Type()) || !isFloat64(cv.X.Type()) {
						continue
					}
					n++
					key := fmt.Sprintf("%s: float64→int64 #%d", fnName(fn), ord.next(fnName(fn)))
					// (A) guards on the operand chain
					var chain, risky []ssa.Value
					floatChain(cv.X, map[ssa.Value]bool{}, &chain, &risky, true)
					fs := factsAt(b)
					okA := false
					for _, x := range chain {
						lo, hi := rangeLimited(fs, x, -two63, two63)
						if lo && hi {
							okA = true
						}
					}
					if okA {
						out.ok(key, p.pos(cv.Pos()), fnName(fn), "operand is known to lie in [-2^63, 2^63) before the conversion")
						continue
					}
					// (B) result range-checked at every use (followed into the
					// callers when the converted value is returned)
					badUses, nuses := p.rangeCheckedUses(cv, two63, 0)
					sort.Strings(badUses)
					if nuses > 0 && len(badUses) == 0 {
						out.ok(key, p.pos(cv.Pos()), fnName(fn), "the converted value is compared against a narrower two-sided range before every use")
						continue
					}
					// explain an insufficient upper guard
					why := "no guard bounds the operand"
					for _, x := range chain {
						for _, bd := range boundsOn(fs, x) {
							if bd.op == token.GTR && !bd.truth && bd.k >= two63 {
								why = fmt.Sprintf("the upper guard compares with %.0f (math.MaxInt64 rounds to 2^63 as a float64), so exactly 2^63 passes and wraps", bd.k)
							}
						}
					}
					out.viol(key, p.pos(cv.Pos()), fnName(fn), "a double outside the int64 range can be converted: "+why+"; unchecked uses at "+strings.Join(uniq(badUses), ", "))
				}
			}
		}
		out.Counts["float_to_int_conversions"] = n
		out.Floors["float_to_int_conversions"] = 1
		return out
	},
}

var ruleListIndex = &Rule{
	Name: "R-LISTINDEX", NeedSSA: true,
	Doc: "every constant-index load from an item sequence (the list of a value list) is dominated by a test of its length that makes the index valid (len == 1, len != 1 refuted, or not isEmpty for index 0); where the test guards the singleton requirement of an arithmetic operand its failing branch returns a suppressible error",
	Run: func(p *Prog) *RuleOut {
		out := newOut("R-LISTINDEX")
		ee := p.errors()
		n := 0
		ord := ordinals{}
		for _, fn := range p.execFuncs() {
			for _, b := range fn.Blocks {
				for _, ins := range b.Instrs {
					ia, ok := ins.(*ssa.IndexAddr)
					if !ok {
						continue
					}
					k, isC := constInt(ia.Index)
					if !isC {
						continue
					}
					base, ok := loadOfField(ia.X, "list")
					if !ok || namedOf(base.Type()) != p.A.ValueList {
						continue
					}
					n++
					key := fmt.Sprintf("%s: sequence[%d] #%d", fnName(fn), k, ord.next(fnName(fn)))
					good, failBlk := p.lenGuard(b, base, k)
					if !good {
						// a one-block accessor of the list (`first()`): the
						// obligation is its callers'
						if q, isParam := base.(*ssa.Parameter); isParam && len(fn.Blocks) == 1 && len(fn.Params) > 0 && q == fn.Params[0] {
							ncall, bad := 0, ""
							for _, cfn := range p.execFuncs() {
								for _, c := range p.allCalls(cfn) {
									if c.Call.StaticCallee() != fn || len(c.Call.Args) == 0 {
										continue
									}
									ncall++
									if g, _ := p.lenGuard(c.Block(), c.Call.Args[0], k); !g && bad == "" {
										bad = p.pos(c.Pos())
									}
								}
							}
							if bad == "" {
								out.ok(key, p.pos(ia.Pos()), fnName(fn), fmt.Sprintf("an accessor of the list: the length is tested before each of its %d calls", ncall))
								continue
							}
							out.viol(key, p.pos(ia.Pos()), fnName(fn), "an element of an item sequence is read by an accessor that is called at "+bad+" without a dominating test of the sequence's length: an empty or longer sequence panics or is silently truncated")
							continue
						}
					}
					if !good {
						out.viol(key, p.pos(ia.Pos()), fnName(fn), "an element of an item sequence is read without a dominating test of the sequence's length: an empty or longer sequence panics or is silently truncated")
						continue
					}
					detail := "length tested first"
					if failBlk != nil && p.pairKind(fn.Signature) == "status" {
						set, _ := p.classesAtReturnOn(failBlk, ee)
						cls := p.classNames(set)
						if len(cls) > 0 {
							okCls := true
							for _, c := range cls {
								if c != "Verbose" && c != "nil" {
									okCls = false
								}
							}
							if !okCls {
								out.viol(key, p.pos(ia.Pos()), fnName(fn), "a sequence that is not a singleton is reported with class "+strings.Join(cls, ",")+" instead of a suppressible error")
								continue
							}
							detail += "; a non-singleton operand is a suppressible error"
						}
					}
					out.ok(key, p.pos(ia.Pos()), fnName(fn), detail)
				}
			}
		}
		out.Counts["constant_index_loads"] = n
		out.Floors["constant_index_loads"] = 1
		return out
	},
}

// lenGuard: block b is dominated by a test of the length of base's list that
// makes index k valid; failBlk is where the test's other outcome goes.
func (p *Prog) lenGuard(b *ssa.BasicBlock, base ssa.Value, k int64) (good bool, failBlk *ssa.BasicBlock) {
	for cur := b; cur != nil && !good; cur = cur.Idom() {
		if len(cur.Preds) != 1 {
			continue
		}
		pr := cur.Preds[0]
		iff, ok := pr.Instrs[len(pr.Instrs)-1].(*ssa.If)
		if !ok {
			continue
		}
		onTrue := pr.Succs[0] == cur
		switch c := iff.Cond.(type) {
		case *ssa.BinOp:
			lb, ok := listLenOf(c.X, "list")
			if !ok || lb != base {
				continue
			}
			kk, ok := constInt(c.Y)
			if !ok {
				continue
			}
			if (c.Op == token.EQL && onTrue && kk > k) || (c.Op == token.NEQ && !onTrue && kk > k) {
				good = true
				if c.Op == token.NEQ {
					failBlk = pr.Succs[0]
				} else {
					failBlk = pr.Succs[1]
				}
			}
		case *ssa.Call:
			if c.Call.StaticCallee() != nil && p.isEmptyMethod(c.Call.StaticCallee()) && c.Call.Args[0] == base && !onTrue && k == 0 {
				good = true
			}
		}
	}
	return good, failBlk
}

func init() {
	register(ruleFinite, ruleDiv, ruleOvf, ruleF2I, ruleListIndex)
	addProp(&PropSpec{
		ID:          "C13",
		Rules:       []string{"R-DIV", "R-OVF", "R-FINITE", "R-LISTINDEX", "R-TOWER", "R-F2I", "R-FOLD", "R-NUMLIT", "R-INPUT-RO", "R-PREC", "R-ERRFIRST", "R-ARITHOP", "R-RESUPPRESS", "R-OPERANDORDER", "R-SCRATCHSTATUS", "R-CMPNORM", "R-UNWRAPTHREAD"},
		Explanation: "'Exact or loud' as guard discipline on SSA instructions: every division on item values is zero-tested, every raw int64 operation on item values is reachable only behind an overflow test on the same operands (falling back to the double operation), every computed double is finiteness-checked before it can become an item, every operand sequence is length-tested before its single element is read, and the three numeric representations are handled together.",
		Decided: []string{"R-DIV: zero tests dominate / and %, the zero branch is a suppressible error", "R-OVF: raw integer arithmetic only behind an overflow test (binary) or a MinInt64 test (unary)",
			"R-FINITE: no Inf/NaN leaves a computing function", "R-LISTINDEX: singleton test before operand[0], failing branch suppressible", "R-TOWER: numeric representations are siblings"},
		NotDecided:  []string{"the arithmetic itself (that the overflow predicate is right, that the double result is the correctly rounded one)", "identities such as x+y = y+x on concrete values"},
		Assumptions: []string{"item float64 values of the input document are finite (JSON numbers)"},
	})
}

// minIntExcluded: the facts rule out v == math.MinInt64.
func minIntExcluded(fs []Fact, v ssa.Value) bool {
	const minInt = -9223372036854775808
	for _, f := range fs {
		bo, ok := f.Cond.(*ssa.BinOp)
		if !ok {
			continue
		}
		var other ssa.Value
		switch {
		case sameValue(bo.X, v):
			other = bo.Y
		case sameValue(bo.Y, v):
			other = bo.X
		default:
			continue
		}
		k, ok := constInt(other)
		if !ok || k != minInt {
			continue
		}
		vLeft := sameValue(bo.X, v)
		switch {
		case bo.Op == token.EQL && !f.Truth, bo.Op == token.NEQ && f.Truth:
			return true
		// v > MinInt64, written either way round and as the negation of ≤
		case bo.Op == token.GTR && f.Truth && vLeft, bo.Op == token.LSS && f.Truth && !vLeft:
			return true
		case bo.Op == token.LEQ && !f.Truth && vLeft, bo.Op == token.GEQ && !f.Truth && !vLeft:
			return true
		}
	}
	return false
}

// --- R-RADIX: strings are converted to integers in base 10 -----------------------------------------

var ruleRadix = &Rule{
	Name: "R-RADIX", NeedSSA: true,
	Doc: "every strconv.ParseInt / ParseUint in package exec (the string forms of .integer() and .bigint()) passes the constant base 10: base 0 would read a leading zero as octal (\"010\" → 8) and reject \"08\"",
	Run: func(p *Prog) *RuleOut {
		out := newOut("R-RADIX")
		n := 0
		ord := ordinals{}
		for _, fn := range p.execFuncs() {
			for _, c := range p.allCalls(fn) {
				q := calleeQualified(&c.Call)
				if q != "strconv.ParseInt" && q != "strconv.ParseUint" {
					continue
				}
				n++
				key := fmt.Sprintf("%s: %s #%d", fnName(fn), q, ord.next(fnName(fn)))
				if k, ok := constInt(c.Call.Args[1]); ok && k == 10 {
					out.ok(key, p.pos(c.Pos()), fnName(fn), "base 10")
				} else {
					out.viol(key, p.pos(c.Pos()), fnName(fn), "the string is not parsed in base 10 ("+trunc(c.Call.Args[1].String(), 20)+"): decimal strings with a leading zero convert to a different number or are rejected")
				}
			}
		}
		out.Counts["integer_string_conversions"] = n
		out.Floors["integer_string_conversions"] = 2
		return out
	},
}

func init() { register(ruleRadix) }
