package main

// Sibling agreement of the entry points (C06) and mode predicates (C07).

import (
	"fmt"
	"go/token"
	"go/types"
	"sort"
	"strings"

	"golang.org/x/tools/go/ssa"
)

// execMethodCalls: calls in fn to methods of *Executor (those that cannot
// evaluate anything, see evaluatesNothing, left out).
func (p *Prog) execMethodCalls(fn *ssa.Function) []*ssa.Call {
	var out []*ssa.Call
	for _, b := range fn.Blocks {
		for _, ins := range b.Instrs {
			if c, ok := ins.(*ssa.Call); ok && isMethodOfExecutor(p, c.Call.StaticCallee()) && !p.evaluatesNothing(c.Call.StaticCallee(), 0) {
				out = append(out, c)
			}
		}
	}
	return out
}

// evaluatesNothing: an unexported method of *Executor (or function taking one)
// that has no context parameter and calls no Executor method other than mode
// predicates and its like: it converts what an evaluation yielded
// (`exec.matchResult(vals, err) (bool, error)`), it cannot run one.
var evalNothingMemo = map[*ssa.Function]int{}

func (p *Prog) evaluatesNothing(fn *ssa.Function, depth int) bool {
	if fn == nil || fn.Blocks == nil || depth > 3 || !isMethodOfExecutor(p, fn) || fn.Object() == nil || fn.Object().Exported() || fn.Parent() != nil {
		return false
	}
	if r, ok := evalNothingMemo[fn]; ok {
		return r == 1
	}
	evalNothingMemo[fn] = 2
	for _, q := range fn.Params {
		if isContextType(q.Type()) {
			return false
		}
		if _, isFn := q.Type().Underlying().(*types.Signature); isFn {
			return false
		}
	}
	for _, b := range fn.Blocks {
		for _, ins := range b.Instrs {
			ci, ok := ins.(ssa.CallInstruction)
			if !ok {
				continue
			}
			if ci.Common().IsInvoke() {
				continue
			}
			g := ci.Common().StaticCallee()
			if g == nil {
				if _, isB := ci.Common().Value.(*ssa.Builtin); isB {
					continue
				}
				return false // a function value: may be anything
			}
			if isMethodOfExecutor(p, g) && p.modePredicate(g) == "" && !p.evaluatesNothing(g, depth+1) {
				return false
			}
		}
	}
	evalNothingMemo[fn] = 1
	return true
}

// entrySet: the exported entry points of package exec and the plain functions
// of the package (no receiver, not exported, not option constructors) that
// only they and their like call: a prologue shared by the entry points
// (`run(ctx, path, value, opt) (*Executor, *valueList, error)`) belongs to
// them.
func (p *Prog) entrySet() map[*ssa.Function]bool {
	set := map[*ssa.Function]bool{}
	for _, n := range p.A.EntryOrder {
		if f := p.ssaOf(p.A.Entry[n]); f != nil {
			set[f] = true
		}
	}
	for changed := true; changed; {
		changed = false
		for _, fn := range p.execFuncs() {
			if set[fn] || fn.Parent() != nil || fn.Object() == nil || fn.Object().Exported() || isOptionCtor(p, fn) {
				continue
			}
			// plain functions, and methods that only convert an outcome
			if fn.Signature.Recv() != nil && !p.evaluatesNothing(fn, 0) {
				continue
			}
			nd := p.CG.Nodes[fn]
			if nd == nil || len(nd.In) == 0 {
				continue
			}
			all := true
			for _, e := range nd.In {
				if !set[e.Caller.Func] {
					all = false
				}
			}
			if all {
				set[fn] = true
				changed = true
			}
		}
	}
	return set
}

// entryEval: the one evaluation call (a method of *Executor) an entry point
// makes, in its own body or in the entry helper it calls; the list and error
// it yields as seen in the entry point; whether it is started with the entry
// point's own context and value.
type entryEvalInfo struct {
	call       *ssa.Call // the adapter call
	host       *ssa.Function
	res0, errV ssa.Value // in the entry point's value space
	argsOK     bool
	n          int
}

func (p *Prog) entryEval(fn *ssa.Function) entryEvalInfo {
	calls := p.execMethodCalls(fn)
	if len(calls) == 1 {
		c := calls[0]
		ok := len(c.Call.Args) == 3 && isParamNamed(c.Call.Args[1], fn) && isContextType(c.Call.Args[1].Type()) && isParamNamed(c.Call.Args[2], fn)
		return entryEvalInfo{c, fn, extractOf(c, 0), extractOf(c, 1), ok, 1}
	}
	if len(calls) > 1 {
		return entryEvalInfo{n: len(calls)}
	}
	set := p.entrySet()
	var info entryEvalInfo
	for _, hc := range p.allCalls(fn) {
		h := hc.Call.StaticCallee()
		if h == nil || !set[h] || h == fn {
			continue
		}
		hcs := p.execMethodCalls(h)
		if len(hcs) != 1 {
			info.n += len(hcs)
			continue
		}
		c := hcs[0]
		info.n++
		info.call, info.host = c, h
		// arguments: the helper's own parameters, which the entry point fills
		// with its own context and value
		okArgs := len(c.Call.Args) == 3
		for _, ai := range []int{1, 2} {
			if !okArgs {
				break
			}
			q, isParam := c.Call.Args[ai].(*ssa.Parameter)
			if !isParam || q.Parent() != h {
				okArgs = false
				break
			}
			pi := paramIndex(q)
			if pi >= len(hc.Call.Args) || !isParamNamed(hc.Call.Args[pi], fn) {
				okArgs = false
			}
		}
		info.argsOK = okArgs && isContextType(c.Call.Args[1].Type())
		// results handed through
		hres0, herr := extractOf(c, 0), extractOf(c, 1)
		for _, r := range returnsOf(h) {
			for j, rv := range r.Results {
				if hres0 != nil && stripConvPlain(rv) == hres0 {
					info.res0 = extractOf(hc, j)
				}
				if herr != nil && stripConvPlain(rv) == herr {
					info.errV = extractOf(hc, j)
				}
			}
		}
	}
	return info
}

func isParamNamed(v ssa.Value, fn *ssa.Function) bool {
	q, ok := v.(*ssa.Parameter)
	return ok && q.Parent() == fn
}

// loadOfField: v is a load of field `name` of (a value derived from) base.
func loadOfField(v ssa.Value, name string) (ssa.Value, bool) {
	u, ok := v.(*ssa.UnOp)
	if !ok || u.Op != token.MUL {
		return nil, false
	}
	fa, ok := u.X.(*ssa.FieldAddr)
	if !ok || fieldName(fa) != name {
		return nil, false
	}
	return fa.X, true
}

// listLenOf: v is the length of the slice field `name` of some struct pointer:
// len(p.name) written out, or a call of an accessor method whose whole body is
// `return len(recv.name)`. Returns the struct pointer.
func listLenOf(v ssa.Value, name string) (ssa.Value, bool) {
	c, ok := v.(*ssa.Call)
	if !ok {
		return nil, false
	}
	if b, ok := c.Call.Value.(*ssa.Builtin); ok && b.Name() == "len" && len(c.Call.Args) == 1 {
		return loadOfField(c.Call.Args[0], name)
	}
	h := c.Call.StaticCallee()
	if h == nil || !inModule(h) || len(h.Blocks) > 4 || len(h.Params) != 1 || len(c.Call.Args) != 1 || h.Signature.Results().Len() != 1 {
		return nil, false
	}
	// every return is the length of the parameter's list, or the constant 0
	// where the parameter is nil (a nil-tolerant accessor)
	nlen := 0
	for _, r := range expandedReturns(h) {
		if base, ok := listLenOf(r.Results[0], name); ok && base == ssa.Value(h.Params[0]) {
			nlen++
			continue
		}
		if k, isC := constInt(r.Results[0]); isC && k == 0 {
			if isNil, _ := nilFact(r.Facts, h.Params[0]); isNil {
				continue
			}
		}
		return nil, false
	}
	if nlen > 0 {
		return c.Call.Args[0], true
	}
	return nil, false
}

var ruleEntry = &Rule{
	Name: "R-ENTRY", NeedSSA: true,
	Doc: "Query, First and Match obtain their list from one and the same internal call with the same arguments and differ only in post-processing (First: element 0 or nil; Match: sole boolean / NULL / single-boolean error gated by verbose); Exists runs the same evaluation with a nil collector; both adapters evaluate the root of the path against the given value; ExistsOrMatch dispatches on IsPredicate; a nil collector is only ever passed where strict mode re-collects or strictness is known false; the two adapters write the same fields of the Executor before the core runs (directly or in a helper they share)",
	Run: func(p *Prog) *RuleOut {
		out := newOut("R-ENTRY")
		fns := map[string]*ssa.Function{}
		for _, n := range p.A.EntryOrder {
			fns[n] = p.ssaOf(p.A.Entry[n])
		}
		adapter := map[string]*ssa.Call{}
		evals := map[string]entryEvalInfo{}
		for _, n := range p.A.EntryOrder {
			fn := fns[n]
			ev := p.entryEval(fn)
			key := "exec." + n + " runs one evaluation"
			if ev.n != 1 || ev.call == nil {
				out.viol(key, p.pos(fn.Pos()), fnName(fn), fmt.Sprintf("%d evaluation calls (expected exactly one)", ev.n))
				continue
			}
			c := ev.call
			adapter[n] = c
			evals[n] = ev
			// arguments: (fresh exec, ctx param, value param)
			if ev.argsOK {
				out.ok(key, p.pos(c.Pos()), fnName(fn), "calls "+c.Call.StaticCallee().Name()+" with its own context and value")
			} else {
				out.viol(key, p.pos(c.Pos()), fnName(fn), "the evaluation is not started with the caller's context and value")
			}
		}
		if len(adapter) == 4 {
			q, f, m, x := adapter["Query"].Call.StaticCallee(), adapter["First"].Call.StaticCallee(), adapter["Match"].Call.StaticCallee(), adapter["Exists"].Call.StaticCallee()
			if q == f && f == m {
				out.ok("Query, First and Match share one evaluation adapter", p.pos(q.Pos()), fnName(q), "all three call "+q.Name())
			} else {
				out.viol("Query, First and Match share one evaluation adapter", p.pos(q.Pos()), fnName(q), "the three entry points no longer obtain their list from the same function: they can disagree")
			}
			// both adapters call the same core with (ctx, list|nil, Root(), value)
			var cores []*ssa.Call
			var collectors []ssa.Value
			for _, ad := range []*ssa.Function{q, x} {
				cs := p.execMethodCalls(ad)
				if len(cs) != 1 {
					out.viol("adapter "+ad.Name()+" calls the core once", p.pos(ad.Pos()), fnName(ad), fmt.Sprintf("%d calls", len(cs)))
					continue
				}
				c := cs[0]
				key := "adapter " + ad.Name() + " evaluates the path's root against the given value"
				good := false
				// the adapters may share a helper that prepares the Executor
				// and calls the core (`exec.queryRoot(ctx, found, value)`): the
				// helper's call of the core is judged with the helper's
				// parameters standing for the adapter's arguments
				if h := c.Call.StaticCallee(); h != nil && h.Blocks != nil && len(c.Call.Args) == len(h.Params) {
					if hcs := p.execMethodCalls(h); len(hcs) == 1 && len(hcs[0].Call.Args) == 5 && returnsResultsOf(h, hcs[0]) {
						c2 := hcs[0]
						sub := func(v ssa.Value) ssa.Value {
							if q, ok := v.(*ssa.Parameter); ok && q.Parent() == h {
								return c.Call.Args[paramIndex(q)]
							}
							return nil
						}
						rootCall, _ := c2.Call.Args[3].(*ssa.Call)
						if rootCall != nil && rootCall.Call.StaticCallee() != nil && rootCall.Call.StaticCallee().Name() == "Root" && fnPkgPath(rootCall.Call.StaticCallee()) == pkgAST {
							if _, ok := loadOfField(rootCall.Call.Args[0], "path"); ok && sub(c2.Call.Args[4]) != nil && sub(c2.Call.Args[1]) != nil && sub(c2.Call.Args[2]) != nil &&
								isParamNamed(sub(c2.Call.Args[4]), ad) && isParamNamed(sub(c2.Call.Args[1]), ad) {
								cores = append(cores, c2)
								collectors = append(collectors, sub(c2.Call.Args[2]))
								out.ok(key, p.pos(c.Pos()), fnName(ad), "through "+h.Name()+": core("+c2.Call.StaticCallee().Name()+") receives ctx, the collector, path.Root() and the value")
								continue
							}
						}
					}
				}
				cores = append(cores, cs[0])
				if len(c.Call.Args) >= 3 {
					collectors = append(collectors, c.Call.Args[2])
				} else {
					collectors = append(collectors, nil)
				}
				if len(c.Call.Args) == 5 {
					rootCall, _ := c.Call.Args[3].(*ssa.Call)
					if rootCall != nil && rootCall.Call.StaticCallee() != nil && rootCall.Call.StaticCallee().Name() == "Root" && fnPkgPath(rootCall.Call.StaticCallee()) == pkgAST {
						if _, ok := loadOfField(rootCall.Call.Args[0], "path"); ok && isParamNamed(c.Call.Args[4], ad) && isParamNamed(c.Call.Args[1], ad) {
							good = true
						}
					}
				}
				if good {
					out.ok(key, p.pos(c.Pos()), fnName(ad), "core("+c.Call.StaticCallee().Name()+") receives ctx, the collector, path.Root() and the value")
				} else {
					out.viol(key, p.pos(c.Pos()), fnName(ad), "the adapter does not hand path.Root() and the caller's value to the core")
				}
			}
			if len(cores) == 2 {
				if cores[0].Call.StaticCallee() == cores[1].Call.StaticCallee() && len(collectors) == 2 && collectors[0] != nil && collectors[1] != nil {
					k0 := p.shapeOf(collectors[0]).Kind
					k1 := p.shapeOf(collectors[1]).Kind
					if k0 != "nil" && k1 == "nil" {
						out.ok("Exists runs the same core as Query with a nil collector", p.pos(cores[1].Pos()), fnName(x), "collector: "+k0+" vs nil")
					} else {
						out.viol("Exists runs the same core as Query with a nil collector", p.pos(cores[1].Pos()), fnName(x), "collector arguments are "+k0+" / "+k1)
					}
				} else {
					out.viol("Exists runs the same core as Query with a nil collector", p.pos(cores[1].Pos()), fnName(x), "Exists evaluates through a different core function than Query")
				}
			}
		}
		if len(adapter) == 4 {
			if cs := p.execMethodCalls(adapter["Query"].Call.StaticCallee()); len(cs) == 1 {
				core := cs[0].Call.StaticCallee()
				// … behind the helper the adapters share
				if hcs := p.execMethodCalls(core); core != nil && core.Blocks != nil && len(hcs) == 1 && len(hcs[0].Call.Args) == 5 && returnsResultsOf(core, hcs[0]) {
					if rc, _ := hcs[0].Call.Args[3].(*ssa.Call); rc != nil && rc.Call.StaticCallee() != nil && rc.Call.StaticCallee().Name() == "Root" {
						core = hcs[0].Call.StaticCallee()
					}
				}
				p.coreTable(out, core)
			}
		}
		// sibling agreement on configuration: no entry point writes a field of
		// the Executor that the others do not write
		{
			sets := map[string]string{}
			for _, n := range p.A.EntryOrder {
				m := map[string]bool{}
				for _, st := range p.execStores(fns[n]) {
					m[st.Field.Name()] = true
				}
				sets[n] = strings.Join(sortedKeys(m), ",")
			}
			same := true
			for _, n := range p.A.EntryOrder {
				if sets[n] != sets[p.A.EntryOrder[0]] {
					same = false
				}
			}
			key := "entry points configure the Executor identically"
			if same {
				out.ok(key, p.pos(fns[p.A.EntryOrder[0]].Pos()), "", "fields written directly by each entry point: {"+sets[p.A.EntryOrder[0]]+"}")
			} else {
				var d []string
				for _, n := range p.A.EntryOrder {
					d = append(d, n+" writes {"+sets[n]+"}")
				}
				out.viol(key, p.pos(fns[p.A.EntryOrder[0]].Pos()), "", "an entry point sets Executor state its siblings do not, so the shared evaluation can behave differently for it: "+strings.Join(d, "; "))
			}
		}
		// … and the same for the adapters the entry points evaluate through
		// (`execute` for Query, First and Match, `exists` for Exists): what
		// one of them prepares in the Executor before it calls the core, the
		// other prepares too
		if len(adapter) == 4 {
			sets := map[*ssa.Function]string{}
			var ads []*ssa.Function
			for _, n := range p.A.EntryOrder {
				if adapter[n] == nil {
					continue
				}
				ad := adapter[n].Call.StaticCallee()
				if ad == nil || ad.Blocks == nil {
					continue
				}
				if _, seen := sets[ad]; seen {
					continue
				}
				m := map[string]bool{}
				for _, st := range p.execStoresV(ad) {
					m[st.Field.Name()] = true
				}
				sets[ad] = strings.Join(sortedKeys(m), ",")
				ads = append(ads, ad)
			}
			if len(ads) >= 2 {
				same := true
				for _, ad := range ads {
					if sets[ad] != sets[ads[0]] {
						same = false
					}
				}
				key := "evaluation adapters prepare the Executor identically"
				if same {
					out.ok(key, p.pos(ads[0].Pos()), fnName(ads[0]), "fields written by each adapter: {"+sets[ads[0]]+"}")
				} else {
					var d []string
					for _, ad := range ads {
						d = append(d, ad.Name()+" writes {"+sets[ad]+"}")
					}
					out.viol(key, p.pos(ads[0].Pos()), fnName(ads[0]), "one adapter prepares Executor state the other does not, so the shared evaluation starts from a different state for Exists than for Query: "+strings.Join(d, "; "))
				}
			}
		}
		// post-processing tables
		for _, n := range []string{"Query", "First", "Exists", "Match"} {
			p.entryReturns(out, n, fns[n], adapter[n], evals[n])
		}

		// ExistsOrMatch
		if eom := p.ssaFunc(pkgPath, "*Path.ExistsOrMatch"); eom != nil {
			var predCall *ssa.Call
			for _, b := range eom.Blocks {
				for _, ins := range b.Instrs {
					if c, ok := ins.(*ssa.Call); ok && c.Call.StaticCallee() != nil && c.Call.StaticCallee().Name() == "IsPredicate" {
						predCall = c
					}
				}
			}
			good := predCall != nil
			nM, nE := 0, 0
			// the dispatch may sit in a helper of the package that is handed the
			// answer of IsPredicate (`path.check(ctx, path.IsPredicate(), json, opt)`)
			disp := eom
			var condV ssa.Value = predCall
			if predCall != nil {
				for _, c := range p.allCalls(eom) {
					h := c.Call.StaticCallee()
					if h == nil || fnPkgPath(h) != pkgPath || h.Blocks == nil || h == eom {
						continue
					}
					for i, a := range c.Call.Args {
						if a == ssa.Value(predCall) && i < len(h.Params) {
							disp, condV = h, h.Params[i]
						}
					}
				}
			}
			for _, b := range disp.Blocks {
				for _, ins := range b.Instrs {
					c, ok := ins.(*ssa.Call)
					if !ok || c.Call.StaticCallee() == nil {
						continue
					}
					var want bool
					switch p.entryBehind(c.Call.StaticCallee(), fns) {
					case "Match":
						want = true
						nM++
					case "Exists":
						want = false
						nE++
					default:
						continue
					}
					hit := false
					for _, f := range factsAt(b) {
						if f.Cond == condV && f.Truth == want {
							hit = true
						}
					}
					if !hit {
						good = false
					}
				}
			}
			if good && nM == 1 && nE == 1 {
				out.ok("ExistsOrMatch dispatches on IsPredicate", p.pos(eom.Pos()), fnName(eom), "predicate check expressions go to Match, all others to Exists")
			} else {
				out.viol("ExistsOrMatch dispatches on IsPredicate", p.pos(eom.Pos()), fnName(eom), "Match is not called exactly on the IsPredicate branch and Exists on the other")
			}
		} else {
			out.undecided("ExistsOrMatch", "-", "", "anchor unresolved")
		}

		// the methods of *Path that wrap an entry point hand it all they were given
		nfw := 0
		for fn := range p.AllFns {
			if fnPkgPath(fn) != pkgPath || fn.Blocks == nil || fn.Signature.Recv() == nil || len(fn.Params) < 2 {
				continue
			}
			for _, c := range p.allCalls(fn) {
				name := p.entryBehind(c.Call.StaticCallee(), fns)
				if name == "" {
					continue
				}
				nfw++
				var missing []string
				for _, q := range fn.Params[1:] {
					// what an entry point takes: the context, the value, the options
					switch t := q.Type().Underlying().(type) {
					case *types.Interface:
					case *types.Slice:
						if nt, ok := t.Elem().(*types.Named); !ok || nt.Obj().Name() != "Option" {
							continue
						}
					default:
						continue
					}
					found := false
					for _, a := range c.Call.Args {
						if a == ssa.Value(q) {
							found = true
						}
					}
					if !found {
						missing = append(missing, q.Name())
					}
				}
				key := fmt.Sprintf("%s forwards its arguments to %s", fnName(fn), name)
				if len(missing) == 0 {
					out.ok(key, p.pos(c.Pos()), fnName(fn), "context, value and options are passed on as received")
				} else {
					out.viol(key, p.pos(c.Pos()), fnName(fn), "the wrapper does not pass on "+strings.Join(missing, ", ")+": options such as WithSilent, WithVars or WithTZ (or the caller's context or value) never reach the executor on this route")
				}
			}
		}
		// … and answer with what the entry point answered
		for fn := range p.AllFns {
			if fnPkgPath(fn) != pkgPath || fn.Blocks == nil || fn.Signature.Recv() == nil || len(fn.Params) < 2 {
				continue
			}
			wraps := false
			for _, c := range p.allCalls(fn) {
				if p.entryBehind(c.Call.StaticCallee(), fns) != "" {
					wraps = true
				}
			}
			if !wraps {
				continue
			}
			bad := ""
			for _, r := range expandedReturns(fn) {
				for _, v := range r.Results {
					c, _ := callOf(v)
					if c == nil {
						if cc, ok := stripConvPlain(v).(*ssa.Call); ok {
							c = cc
						}
					}
					if (c == nil || (p.entryBehind(c.Call.StaticCallee(), fns) == "" && fnPkgPath(c.Call.StaticCallee()) != pkgPath)) && bad == "" {
						bad = p.pos(r.Instr.Pos())
					}
				}
			}
			key := fnName(fn) + " answers with the entry point's results"
			if bad == "" {
				out.ok(key, p.pos(fn.Pos()), fnName(fn), "every return hands back the results of the wrapped call")
			} else {
				out.viol(key, p.pos(fn.Pos()), fnName(fn), "the return at "+bad+" answers without (or with something other than) the results of the entry point it wraps: the wrapper can disagree with the function it stands for")
			}
		}
		out.Counts["wrapper_calls_of_entry_points"] = nfw
		out.Floors["wrapper_calls_of_entry_points"] = 4

		// nil collectors
		ncoll := 0
		for _, fn := range p.execFuncs() {
			for _, b := range fn.Blocks {
				for _, ins := range b.Instrs {
					c, ok := ins.(*ssa.Call)
					if !ok || c.Call.StaticCallee() == nil || !inModule(c.Call.StaticCallee()) {
						continue
					}
					for ai, a := range c.Call.Args {
						pt, ok := a.Type().(*types.Pointer)
						if !ok || pt.Elem() != types.Type(p.A.ValueList) {
							continue
						}
						// nil, or nil on some of the ways into a merge (`var vals
						// *valueList; if strict { vals = newList() }`)
						notStrictWhereNil := false
						if ph, isPhi := a.(*ssa.Phi); isPhi {
							nn, nok := 0, 0
							for ei, e := range ph.Edges {
								if !isNilConst(e) {
									continue
								}
								nn++
								pred := ph.Block().Preds[ei]
								if p.strictFact(edgeFacts(pred, succIndex(pred, ph.Block())), false) {
									nok++
								}
							}
							if nn == 0 {
								continue
							}
							notStrictWhereNil = nn == nok
						} else if !isNilConst(a) {
							continue
						}
						ncoll++
						callee := c.Call.StaticCallee()
						key := fmt.Sprintf("%s passes a nil collector to %s", fnName(fn), callee.Name())
						switch {
						case notStrictWhereNil:
							out.ok(key, p.pos(c.Pos()), fnName(fn), "nil only on the way in on which the path is known not to be strict")
						case p.strictFact(factsAt(b), false):
							out.ok(key, p.pos(c.Pos()), fnName(fn), "only on the branch where the path is known not to be strict")
						case p.recollectsWhenStrict(callee, ai):
							out.ok(key, p.pos(c.Pos()), fnName(fn), "the callee replaces a nil collector by a fresh list in strict mode before evaluating")
						case p.neverEvaluates(c):
							out.ok(key, p.pos(c.Pos()), fnName(fn), "the call carries a nil node: nothing is evaluated")
						default:
							out.viol(key, p.pos(c.Pos()), fnName(fn), "in strict mode an evaluation with a nil collector stops at the first item and can hide an error that Query reports")
						}
					}
				}
			}
		}
		out.Counts["nil_collector_call_sites"] = ncoll
		out.Floors["nil_collector_call_sites"] = 2
		return out
	},
}

// entryBehind: the entry point of package exec that sc is, or that sc (a
// one-block method of package path) calls once and whose results it returns.
func (p *Prog) entryBehind(sc *ssa.Function, fns map[string]*ssa.Function) string {
	for n, f := range fns {
		if f == sc {
			return n
		}
	}
	if sc == nil || fnPkgPath(sc) != pkgPath || len(sc.Blocks) != 1 {
		return ""
	}
	name := ""
	var call *ssa.Call
	for _, c := range p.allCalls(sc) {
		for n, f := range fns {
			if c.Call.StaticCallee() == f {
				if call != nil {
					return ""
				}
				name, call = n, c
			}
		}
	}
	if call == nil {
		return ""
	}
	// the receiver's tree and the caller's own arguments go in, the results come out
	for _, a := range call.Call.Args {
		if _, isParam := a.(*ssa.Parameter); isParam {
			continue
		}
		if _, ok := loadOfField(a, "AST"); ok {
			continue
		}
		return ""
	}
	for _, r := range returnsOf(sc) {
		for _, v := range r.Results {
			if c, _ := callOf(v); c != call {
				return ""
			}
		}
	}
	return name
}

// strictFact: facts contain a call to a parameterless bool method of
// *Executor that returns path.IsStrict() (or IsLax negated) with given truth.
func (p *Prog) strictFact(fs []Fact, want bool) bool {
	for _, f := range fs {
		c, ok := f.Cond.(*ssa.Call)
		if !ok {
			continue
		}
		switch p.modePredicate(c.Call.StaticCallee()) {
		case "strict":
			if f.Truth == want {
				return true
			}
		case "lax":
			if f.Truth != want {
				return true
			}
		}
	}
	return false
}

// modePredicate: fn is a parameterless bool method of *Executor whose body is
// `return exec.path.IsStrict()` / `IsLax()`; returns "strict", "lax" or "".
func (p *Prog) modePredicate(fn *ssa.Function) string {
	if fn == nil || !isMethodOfExecutor(p, fn) || len(fn.Params) != 1 || len(fn.Blocks) != 1 {
		return ""
	}
	r, ok := fn.Blocks[0].Instrs[len(fn.Blocks[0].Instrs)-1].(*ssa.Return)
	if !ok || len(r.Results) != 1 {
		return ""
	}
	c, ok := r.Results[0].(*ssa.Call)
	if !ok || c.Call.StaticCallee() == nil || fnPkgPath(c.Call.StaticCallee()) != pkgAST {
		return ""
	}
	if _, ok := loadOfField(c.Call.Args[0], "path"); !ok {
		return ""
	}
	switch c.Call.StaticCallee().Name() {
	case "IsStrict":
		return "strict"
	case "IsLax":
		return "lax"
	}
	return ""
}

// recollectsWhenStrict: callee begins with `if strict && param == nil` and on
// that branch evaluates with a fresh list.
func (p *Prog) recollectsWhenStrict(callee *ssa.Function, argIdx int) bool {
	if callee == nil || argIdx >= len(callee.Params) || len(callee.Blocks) == 0 {
		return false
	}
	q := callee.Params[argIdx]
	// a helper that only hands the collector on to one call of a function
	// that re-collects (`queryRoot(ctx, found, value)` in front of `query`)
	if refs := q.Referrers(); refs != nil {
		var fwd *ssa.Call
		only := true
		for _, r := range *refs {
			switch x := r.(type) {
			case *ssa.DebugRef:
			case *ssa.Call:
				if fwd != nil || x.Call.IsInvoke() {
					only = false
				}
				fwd = x
			default:
				only = false
			}
		}
		if only && fwd != nil && fwd.Call.StaticCallee() != callee {
			for j, a := range fwd.Call.Args {
				if a == ssa.Value(q) && p.recollectsWhenStrict(fwd.Call.StaticCallee(), j) {
					return true
				}
			}
		}
	}
	for _, b := range callee.Blocks {
		fs := factsAt(b)
		isNil, _ := nilFact(fs, q)
		if !isNil || !p.strictFact(fs, true) {
			continue
		}
		for _, ins := range b.Instrs {
			if c, ok := ins.(*ssa.Call); ok && isMethodOfExecutor(p, c.Call.StaticCallee()) {
				for _, a := range c.Call.Args {
					if pt, ok := a.Type().(*types.Pointer); ok && pt.Elem() == types.Type(p.A.ValueList) && !isNilConst(a) && a != ssa.Value(q) {
						// every other use of q as collector must be on a non-strict or non-nil path
						return p.otherUsesGuarded(callee, q)
					}
				}
				// … or the branch is handed to a function that evaluates into
				// a list of its own and into nothing else
				if p.collectsIntoOwnList(c.Call.StaticCallee()) {
					return p.otherUsesGuarded(callee, q)
				}
			}
		}
	}
	return false
}

// collectsIntoOwnList: h (a status method without a collector parameter)
// evaluates, and every evaluation call in it is handed a list made in h.
func (p *Prog) collectsIntoOwnList(h *ssa.Function) bool {
	if h == nil || h.Blocks == nil || p.pairKind(h.Signature) != "status" || p.collectorParam(h) != nil {
		return false
	}
	n := 0
	for _, c := range p.allCalls(h) {
		if !isMethodOfExecutor(p, c.Call.StaticCallee()) || p.pairKind(calleeSig(c)) != "status" {
			continue
		}
		own := false
		for _, a := range c.Call.Args {
			pt, ok := a.Type().(*types.Pointer)
			if !ok || pt.Elem() != types.Type(p.A.ValueList) {
				continue
			}
			switch stripConvPlain(a).(type) {
			case *ssa.Call, *ssa.Alloc:
				own = true
			default:
				return false
			}
		}
		if !own {
			return false
		}
		n++
	}
	return n > 0
}

func (p *Prog) otherUsesGuarded(fn *ssa.Function, q *ssa.Parameter) bool {
	for _, b := range fn.Blocks {
		for _, ins := range b.Instrs {
			c, ok := ins.(*ssa.Call)
			if !ok {
				continue
			}
			for _, a := range c.Call.Args {
				if a != ssa.Value(q) {
					continue
				}
				fs := factsAt(b)
				_, notNil := nilFact(fs, q)
				if !(notNil || p.strictFact(fs, false) || p.notBothFact(b, q)) {
					return false
				}
			}
		}
	}
	return true
}

// notBothFact: block b is reached through the false outcome of the
// short-circuit `strict && q == nil`.
func (p *Prog) notBothFact(b *ssa.BasicBlock, q *ssa.Parameter) bool {
	// every predecessor edge must come from the false edge of one of the two tests
	if len(b.Preds) == 0 {
		return false
	}
	for _, pr := range b.Preds {
		fs := edgeFacts(pr, succIndex(pr, b))
		_, notNil := nilFact(fs, q)
		if !(notNil || p.strictFact(fs, false)) {
			return false
		}
	}
	return true
}

// neverEvaluates: the call passes a nil ast.Node as the node to evaluate.
func (p *Prog) neverEvaluates(c *ssa.Call) bool {
	for _, a := range c.Call.Args {
		if isNilConst(a) && types.Identical(a.Type(), p.A.Node) {
			return true
		}
	}
	return false
}

func (p *Prog) entryReturns(out *RuleOut, name string, fn *ssa.Function, ad *ssa.Call, ev entryEvalInfo) {
	if fn == nil || ad == nil {
		return
	}
	res0, errV := ev.res0, ev.errV
	seen := map[string]bool{}
	except := ad.Call.StaticCallee()
	if ev.host != nil && ev.host != fn {
		except = ev.host
	}
	for _, r := range p.virtualReturns(fn, except, 0) {
		fs := r.Facts
		v, e := r.Results[0], r.Results[1]
		isNil, notNil := nilFact(fs, errV)
		tag := ""
		switch {
		case notNil:
			// failure: zero value and the evaluation's own error
			if stripConv(e) == errV && isZero(v) {
				tag = "failure → (zero, err)"
			}
		case isNil || errV == nil:
			tag = p.entrySuccessTag(name, fn, RetSite{Instr: r.Instr, Results: r.Results}, res0, fs)
		}
		key := fmt.Sprintf("exec.%s returns (%s, %s)", name, p.shapeOf(v), p.shapeOf(e))
		if tag == "" {
			out.viol(key, p.pos(r.Instr.Pos()), fnName(fn), "return does not match the documented post-processing of "+name)
			continue
		}
		seen[tag] = true
		out.ok(key, p.pos(r.Instr.Pos()), fnName(fn), tag)
	}
	want := map[string][]string{
		"Query":  {"failure → (zero, err)", "success → the list"},
		"First":  {"failure → (zero, err)", "empty → (nil, nil)", "non-empty → element 0"},
		"Exists": {"failure → (zero, err)", "failed status → (false, NULL)", "status == OK"},
		"Match":  {"failure → (zero, err)", "sole null → (false, NULL)", "sole boolean → it", "otherwise, verbose → single-boolean error", "otherwise, silent → (false, NULL)"},
	}[name]
	for _, w := range want {
		if !seen[w] {
			out.viol("exec."+name+" has the case: "+w, p.pos(fn.Pos()), fnName(fn), "the documented outcome '"+w+"' is no longer produced")
		}
	}
}

// VRet is a return of a function with the results of a small helper of the
// package it ends in (`return helper(x)`, `return false, helper(x)`) replaced
// by what the helper returns on each of its paths, over the caller's values.
type VRet struct {
	Instr   *ssa.Return
	Results []ssa.Value
	Facts   []Fact
}

// smallHelper: a loop-free function of at most 16 blocks.
func smallHelper(g *ssa.Function) bool {
	if g == nil || g.Blocks == nil || len(g.Blocks) > 16 || len(g.FreeVars) > 0 {
		return false
	}
	for _, b := range g.Blocks {
		for _, pr := range b.Preds {
			if b.Dominates(pr) {
				return false
			}
		}
	}
	return true
}

func (p *Prog) virtualReturns(fn, except *ssa.Function, depth int) []VRet {
	var out []VRet
	for _, r := range returnsOf(fn) {
		out = append(out, p.expandVRet(fn, except, VRet{r.Instr, r.Results, factsAt(r.Instr.Block())}, depth)...)
	}
	return out
}

func (p *Prog) expandVRet(fn, except *ssa.Function, vr VRet, depth int) []VRet {
	var hc *ssa.Call
	tied := make([]int, len(vr.Results))
	for i, v := range vr.Results {
		tied[i] = -1
		c, idx := callOf(v)
		if c == nil {
			if cc, ok := stripConv(v).(*ssa.Call); ok {
				c, idx = cc, 0
			}
		}
		if c == nil {
			continue
		}
		g := c.Call.StaticCallee()
		if g == nil || g == except || g == fn || c.Call.IsInvoke() || fnPkgPath(g) != fnPkgPath(fn) || !smallHelper(g) {
			continue
		}
		if hc != nil && hc != c {
			return []VRet{vr} // two helpers: left as it is
		}
		hc, tied[i] = c, idx
	}
	if hc == nil || depth > 2 {
		return []VRet{vr}
	}
	g := hc.Call.StaticCallee()
	var out []VRet
	for _, gr := range expandedReturns(g) {
		nr := VRet{Instr: vr.Instr, Results: append([]ssa.Value(nil), vr.Results...), Facts: append([]Fact(nil), vr.Facts...)}
		ok := true
		for i, j := range tied {
			if j < 0 {
				continue
			}
			if j >= len(gr.Results) {
				ok = false
				break
			}
			sv := substInto(hc, g, gr.Results[j], 0)
			if sv == nil {
				ok = false
				break
			}
			nr.Results[i] = sv
		}
		if !ok {
			return []VRet{vr}
		}
		for _, f := range gr.Facts {
			if sv := substInto(hc, g, f.Cond, 0); sv != nil {
				nr.Facts = append(nr.Facts, Fact{Cond: sv, Truth: f.Truth, Synth: true})
			}
		}
		out = append(out, p.expandVRet(fn, except, nr, depth+1)...)
	}
	if len(out) == 0 {
		return []VRet{vr}
	}
	return out
}

func isZero(v ssa.Value) bool {
	c, ok := stripConv(v).(*ssa.Const)
	if !ok {
		return false
	}
	if c.Value == nil {
		return true
	}
	return c.Value.ExactString() == "false" || c.Value.ExactString() == "0"
}

func (p *Prog) entrySuccessTag(name string, fn *ssa.Function, r RetSite, res0 ssa.Value, fs []Fact) string {
	v, e := stripConv(r.Results[0]), stripConv(r.Results[1])
	errNil := isNilConst(e)
	switch name {
	case "Query":
		if base, ok := loadOfField(v, "list"); ok && base == res0 && errNil {
			return "success → the list"
		}
	case "First":
		empty := 0
		for _, f := range fs {
			if c, ok := f.Cond.(*ssa.Call); ok && c.Call.StaticCallee() != nil && p.isEmptyMethod(c.Call.StaticCallee()) && c.Call.Args[0] == res0 {
				if f.Truth {
					empty = 1
				} else {
					empty = -1
				}
			}
		}
		if empty == 1 && isNilConst(v) && errNil {
			return "empty → (nil, nil)"
		}
		if empty == -1 && errNil {
			if u, ok := v.(*ssa.UnOp); ok && u.Op == token.MUL {
				if ia, ok := u.X.(*ssa.IndexAddr); ok {
					if k, ok := constInt(ia.Index); ok && k == 0 {
						if base, ok := loadOfField(ia.X, "list"); ok && base == res0 {
							return "non-empty → element 0"
						}
					}
				}
			}
		}
	case "Exists":
		st := p.statusFact(fs, res0, constOf(p.A.StatusFailed))
		if st == 1 && isZero(v) && p.shapeOf(e).Kind == "global" && strings.HasSuffix(p.shapeOf(e).Text, ".NULL") {
			return "failed status → (false, NULL)"
		}
		if st == -1 && errNil {
			if bo, ok := v.(*ssa.BinOp); ok && bo.Op == token.EQL && bo.X == res0 {
				if k, ok := constInt(bo.Y); ok {
					if c := p.A.StatusConsts["statusOK"]; c == nil || constOf(c) == k {
						return "status == OK"
					}
				}
			}
			// spelled out: true where the status is known OK, false where it is
			// known to be neither OK nor failed (`switch res { case failed: … case OK: … default: … }`)
			if c := p.A.StatusConsts["statusOK"]; c != nil {
				isOK := p.statusFact(fs, res0, constOf(c))
				if kc, ok := v.(*ssa.Const); ok && kc.Value != nil {
					switch {
					case kc.Value.ExactString() == "true" && isOK == 1:
						return "status == OK"
					case kc.Value.ExactString() == "false" && isOK == -1:
						return "status == OK"
					}
				}
			}
		}
	case "Match":
		// facts: len(list) == 1 ?
		one := 0
		var elem ssa.Value
		for _, f := range fs {
			bo, ok := f.Cond.(*ssa.BinOp)
			if !ok || (bo.Op != token.EQL && bo.Op != token.NEQ) {
				continue
			}
			if base, ok := listLenOf(bo.X, "list"); ok && base == res0 {
				if k, ok := constInt(bo.Y); ok && k == 1 {
					if f.Truth == (bo.Op == token.EQL) {
						one = 1
					} else {
						one = -1
					}
				}
			}
		}
		isNULL := p.shapeOf(e).Kind == "global" && strings.HasSuffix(p.shapeOf(e).Text, ".NULL")
		if one == 1 {
			// element tests
			for _, f := range fs {
				if bo, ok := f.Cond.(*ssa.BinOp); ok && isNilConst(bo.Y) && (bo.Op == token.EQL) == f.Truth && (bo.Op == token.EQL || bo.Op == token.NEQ) && p.isElem0(bo.X, res0) {
					elem = bo.X
				}
			}
			if elem != nil && p.isElem0(elem, res0) && isZero(v) && isNULL {
				return "sole null → (false, NULL)"
			}
			if ex, ok := v.(*ssa.Extract); ok && errNil {
				if ta, ok := ex.Tuple.(*ssa.TypeAssert); ok && ex.Index == 0 && p.isElem0(ta.X, res0) {
					if b, ok := ta.AssertedType.(*types.Basic); ok && b.Kind() == types.Bool {
						for _, f := range fs {
							if fe, ok := f.Cond.(*ssa.Extract); ok && fe.Tuple == ssa.Value(ta) && fe.Index == 1 && f.Truth {
								return "sole boolean → it"
							}
						}
					}
				}
			}
		}
		// fallthrough cases: not (len==1 && bool/nil)
		if p.verboseFact(fs, true) && isZero(v) {
			if sh := p.shapeOf(e); sh.Kind == "errorf" && len(sh.Sentinels) > 0 && sh.Sentinels[0] == "exec.ErrVerbose" {
				return "otherwise, verbose → single-boolean error"
			}
		}
		if p.verboseFact(fs, false) && isZero(v) && isNULL {
			return "otherwise, silent → (false, NULL)"
		}
	}
	return ""
}

func (p *Prog) isElem0(v ssa.Value, list ssa.Value) bool {
	u, ok := stripConv(v).(*ssa.UnOp)
	if !ok || u.Op != token.MUL {
		return false
	}
	ia, ok := u.X.(*ssa.IndexAddr)
	if !ok {
		return false
	}
	if k, ok := constInt(ia.Index); !ok || k != 0 {
		return false
	}
	base, ok := loadOfField(ia.X, "list")
	return ok && base == list
}

func (p *Prog) isEmptyMethod(fn *ssa.Function) bool {
	if fn.Signature.Recv() == nil || namedOf(fn.Signature.Recv().Type()) != p.A.ValueList || len(fn.Blocks) != 1 {
		return false
	}
	r, ok := fn.Blocks[0].Instrs[len(fn.Blocks[0].Instrs)-1].(*ssa.Return)
	if !ok || len(r.Results) != 1 {
		return false
	}
	bo, ok := r.Results[0].(*ssa.BinOp)
	if !ok || bo.Op != token.EQL {
		return false
	}
	k, ok := constInt(bo.Y)
	return ok && k == 0
}

// R-MODEPRED ---------------------------------------------------------------------

var ruleModePred = &Rule{
	Name: "R-MODEPRED", NeedSSA: true,
	Doc: "the mode predicates of the Executor (parameterless bool methods) are functions of the path's lax/strict flag only, and the constructor initialises the structural-error flag from IsLax",
	Run: func(p *Prog) *RuleOut {
		out := newOut("R-MODEPRED")
		n := 0
		for _, fn := range p.execFuncs() {
			if !isMethodOfExecutor(p, fn) || len(fn.Params) != 1 || fn.Signature.Results().Len() != 1 {
				continue
			}
			if b, ok := fn.Signature.Results().At(0).Type().(*types.Basic); !ok || b.Kind() != types.Bool {
				continue
			}
			// a mode predicate is one that consults the path's mode at all; other
			// parameterless tests of the Executor (`interrupted()`) are not its business
			consults := false
			for _, c := range p.allCalls(fn) {
				if sc := c.Call.StaticCallee(); sc != nil && fnPkgPath(sc) == pkgAST && (sc.Name() == "IsStrict" || sc.Name() == "IsLax") {
					consults = true
				}
			}
			if !consults {
				continue
			}
			n++
			key := "mode predicate " + fnName(fn)
			if m := p.modePredicate(fn); m != "" {
				out.ok(key, p.pos(fn.Pos()), fnName(fn), "returns path.Is"+strings.Title(m)+"() and nothing else")
			} else {
				out.viol(key, p.pos(fn.Pos()), fnName(fn), "a mode predicate depends on something other than the path's lax/strict flag")
			}
		}
		out.Counts["mode_predicates"] = n
		out.Floors["mode_predicates"] = 3
		// constructor: ignore flag = IsLax()
		ignore := p.ignoreField()
		if ignore == nil {
			out.undecided("structural-error flag", "-", "", "anchor unresolved")
			return out
		}
		found := false
		for _, sc := range p.classifyState() {
			if sc.Field != ignore || sc.Class != "constructor" {
				continue
			}
			for _, s := range p.execStores(sc.Fn) {
				if s.Field != ignore {
					continue
				}
				found = true
				c, ok := s.Store.Val.(*ssa.Call)
				if ok && c.Call.StaticCallee() != nil && c.Call.StaticCallee().Name() == "IsLax" && fnPkgPath(c.Call.StaticCallee()) == pkgAST {
					out.ok("constructor initialises "+ignore.Name()+" from IsLax", p.pos(s.Store.Pos()), fnName(sc.Fn), "lax paths ignore structural errors, strict paths report them")
				} else {
					out.viol("constructor initialises "+ignore.Name()+" from IsLax", p.pos(s.Store.Pos()), fnName(sc.Fn), "initial value of the structural-error flag is not path.IsLax()")
				}
			}
		}
		if !found {
			out.viol("constructor initialises "+ignore.Name()+" from IsLax", "-", "", "no constructor store to the flag found")
		}
		return out
	},
}

// ignoreField: the bool Executor field that a restorer-returning helper with a
// bool parameter overrides (tempSetIgnoreStructuralErrors).
func (p *Prog) ignoreField() *types.Var {
	scs := p.classifyState()
	fromIsLax := func(f *types.Var) bool {
		for _, ctor := range scs {
			if ctor.Class != "constructor" || ctor.Field != f {
				continue
			}
			for _, st := range p.execStores(ctor.Fn) {
				if st.Field != f || st.Store == nil {
					continue
				}
				if c, ok := stripConv(st.Store.Val).(*ssa.Call); ok && c.Call.StaticCallee() != nil && c.Call.StaticCallee().Name() == "IsLax" && fnPkgPath(c.Call.StaticCallee()) == pkgAST {
					return true
				}
			}
		}
		return false
	}
	// a bool field with a save-and-override helper; when several fields have
	// one (`setTempVerbose` beside the flag's own), the one the constructor
	// fills from the path's IsLax()
	var cands []*types.Var
	for _, sc := range scs {
		if sc.Class != "restorer-helper" {
			continue
		}
		if b, ok := sc.Field.Type().(*types.Basic); ok && b.Kind() == types.Bool {
			dup := false
			for _, c := range cands {
				if c == sc.Field {
					dup = true
				}
			}
			if !dup {
				cands = append(cands, sc.Field)
			}
		}
	}
	for _, f := range cands {
		if len(cands) == 1 || fromIsLax(f) {
			return f
		}
	}
	if len(cands) > 0 {
		return cands[0]
	}
	// no helper: the bool field that is saved and restored in place and that
	// the constructor fills from the path's IsLax()
	for _, sc := range scs {
		if sc.Class != "defer-restore" && sc.Class != "explicit-restore" {
			continue
		}
		b, ok := sc.Field.Type().(*types.Basic)
		if !ok || b.Kind() != types.Bool {
			continue
		}
		for _, ctor := range scs {
			if ctor.Class != "constructor" || ctor.Field != sc.Field {
				continue
			}
			for _, st := range p.execStores(ctor.Fn) {
				if st.Field != sc.Field {
					continue
				}
				if c, ok := stripConv(st.Store.Val).(*ssa.Call); ok && c.Call.StaticCallee() != nil && c.Call.StaticCallee().Name() == "IsLax" && fnPkgPath(c.Call.StaticCallee()) == pkgAST {
					return sc.Field
				}
			}
		}
	}
	return nil
}

func init() {
	register(ruleEntry, ruleModePred)
}

// emptinessPolarity: fn is a one-block bool function comparing len(x) of a
// field of its receiver with zero: +1 if it is true exactly when empty, -1 if
// true exactly when non-empty, 0 otherwise.
func emptinessPolarity(fn *ssa.Function) int {
	if fn == nil || len(fn.Blocks) != 1 {
		return 0
	}
	r, ok := fn.Blocks[0].Instrs[len(fn.Blocks[0].Instrs)-1].(*ssa.Return)
	if !ok || len(r.Results) != 1 {
		return 0
	}
	bo, ok := r.Results[0].(*ssa.BinOp)
	if !ok {
		return 0
	}
	if _, ok := bo.X.(*ssa.Call); !ok {
		return 0
	}
	if _, isLen := listLenOf(bo.X, "list"); !isLen {
		if c := bo.X.(*ssa.Call); c.Call.Value == nil {
			return 0
		} else if b, ok := c.Call.Value.(*ssa.Builtin); !ok || b.Name() != "len" {
			return 0
		}
	}
	k, ok := constInt(bo.Y)
	if !ok || k != 0 {
		return 0
	}
	switch bo.Op {
	case token.EQL, token.LEQ:
		return 1
	case token.NEQ, token.GTR:
		return -1
	}
	return 0
}

// coreTable: decision table of the evaluation core (the function both
// adapters call). With a nil collector in strict mode it evaluates into a
// fresh list; a failure is propagated, and otherwise the answer depends on
// the emptiness of that list only: empty → (not found, nil), non-empty →
// (OK, nil). Everywhere else the evaluation's own pair is returned.
func (p *Prog) coreTable(out *RuleOut, core *ssa.Function) {
	key := "decision table of the evaluation core"
	if core == nil {
		out.undecided(key, "-", "", "core unresolved")
		return
	}
	var coll *ssa.Parameter
	for _, q := range core.Params {
		if pt, ok := q.Type().(*types.Pointer); ok && pt.Elem() == types.Type(p.A.ValueList) {
			coll = q
		}
	}
	if coll == nil {
		out.undecided(key, p.pos(core.Pos()), fnName(core), "no collector parameter")
		return
	}
	coreColl := coll
	okC, nf, failed := constOf(p.A.StatusConsts["statusOK"]), constOf(p.A.StatusConsts["statusNotFound"]), constOf(p.A.StatusFailed)
	n := 0
	var probs []string
	// checkRows judges the rows of fn: the core itself, or the function the
	// core hands the re-collecting branch to (`return exec.queryComplete(ctx,
	// node, value)`, reached at block via); coll is fn's collector parameter
	// (nil for that helper, which has none).
	var checkRows func(fn *ssa.Function, coll *ssa.Parameter, via *ssa.BasicBlock, depth int)
	checkRows = func(fn *ssa.Function, coll *ssa.Parameter, via *ssa.BasicBlock, depth int) {
		tx, rows := p.extractTable(fn, nil, &TableCfg{})
		for _, r := range rows {
			if r.Loop != nil || len(r.Out) != 2 {
				continue
			}
			var eval, empt *ssa.Call
			for _, c := range r.Calls {
				if sig := calleeSig(c); sig != nil && p.pairKind(sig) == "status" {
					eval = c
				}
			}
			where := p.pos(r.End.Pos())
			if eval == nil {
				probs = append(probs, "path at "+where+" returns without evaluating")
				continue
			}
			var evalColl ssa.Value
			for _, a := range eval.Call.Args {
				if pt, ok := a.Type().(*types.Pointer); ok && pt.Elem() == types.Type(p.A.ValueList) {
					evalColl = a
				}
			}
			// the whole branch handed to a function of the core's own
			if h := eval.Call.StaticCallee(); evalColl == nil && depth == 0 && h != nil && !eval.Call.IsInvoke() && h.Blocks != nil && isMethodOfExecutor(p, h) &&
				r.Out[0].Kind == "atom" && r.Out[0].Atom == atomKey(eval, 0) && r.Out[1].Kind == "atom" && r.Out[1].Atom == atomKey(eval, 1) {
				only := true
				if nd := p.CG.Nodes[h]; nd != nil {
					for _, e := range nd.In {
						if e.Caller.Func != fn {
							only = false
						}
					}
				}
				if only {
					checkRows(h, nil, eval.Block(), depth+1)
					continue
				}
			}
			for _, c := range r.Calls {
				if c.Call.StaticCallee() != nil && len(c.Call.Args) > 0 && c.Call.Args[0] == evalColl && emptinessPolarity(c.Call.StaticCallee()) != 0 {
					empt = c
				}
			}
			st, e1 := atomKey(eval, 0), atomKey(eval, 1)
			names := tx.atomsOf(append(guardTerms(r), r.Out...)...)
			tx.term(eval, r, 0)
			names = uniq(sortStrings(append(names, st, e1)))
			for _, as := range tx.models(r, names) {
				if (as[e1] == 1) != (as[st] == failed) {
					continue // incoherent pair (excluded by R-PAIR-P)
				}
				n++
				got, gerr := tx.eval(r.Out[0], as, 0), tx.eval(r.Out[1], as, 0)
				if coll != nil && evalColl == ssa.Value(coll) {
					// plain evaluation: the pair is returned as it is
					if got.Kind != "int" || got.K != as[st] || (as[e1] == 1 && (gerr.Kind != "ref" || gerr.Ref != e1)) || (as[e1] == 0 && gerr.Kind != "nil" && !(gerr.Kind == "ref" && gerr.Ref == e1)) {
						probs = append(probs, fmt.Sprintf("evaluation into the caller's collector: status %d → (%v, %s) at %s, expected the evaluation's own pair", as[st], got.K, errValName(gerr), where))
					}
					continue
				}
				// re-collecting branch
				guardAt, guardColl := eval.Block(), coll
				if via != nil {
					guardAt, guardColl = via, coreColl
				}
				isNil, _ := nilFact(factsAt(guardAt), guardColl)
				if !isNil || !p.strictFact(factsAt(guardAt), true) {
					probs = append(probs, "the core evaluates into a private list at "+p.pos(eval.Pos())+" outside the branch 'strict and no collector'")
				}
				switch {
				case as[st] == failed:
					if got.Kind != "int" || got.K != failed || gerr.Kind != "ref" || gerr.Ref != e1 {
						probs = append(probs, fmt.Sprintf("failed evaluation → (%v, %s) at %s, expected (failed, that error)", got.K, errValName(gerr), where))
					}
				case empt == nil:
					probs = append(probs, fmt.Sprintf("status %d of the complete evaluation decides the answer at %s without looking at the collected list: Exists can differ from Query", as[st], where))
				default:
					ev, has := as[atomKey(empt, 0)]
					if !has {
						probs = append(probs, "emptiness is computed but not tested on the path at "+where)
						continue
					}
					isEmpty := (ev == 1) == (emptinessPolarity(empt.Call.StaticCallee()) > 0)
					want := okC
					if isEmpty {
						want = nf
					}
					if got.Kind != "int" || got.K != want || gerr.Kind != "nil" {
						probs = append(probs, fmt.Sprintf("complete evaluation with status %d and empty=%v → (%v, %s) at %s, expected (%d, nil)", as[st], isEmpty, got.K, errValName(gerr), where, want))
					}
				}
			}
		}
	}
	checkRows(core, coll, nil, 0)
	sort.Strings(probs)
	probs = uniq(probs)
	switch {
	case n < 6:
		out.viol(key, p.pos(core.Pos()), fnName(core), fmt.Sprintf("only %d cells found", n))
	case len(probs) > 0:
		out.viol(key, p.pos(core.Pos()), fnName(core), probs[0], probs...)
	default:
		out.ok(key, p.pos(core.Pos()), fnName(core), fmt.Sprintf("%d (mode, collector, status, error, emptiness) cells agree", n))
	}
	out.Counts["core_cells"] = n
	out.Floors["core_cells"] = 6
}

// returnsResultsOf: every return of h hands back the results of call c, in order.
func returnsResultsOf(h *ssa.Function, c *ssa.Call) bool {
	rets := returnsOf(h)
	for _, r := range rets {
		for i, rv := range r.Results {
			cc, idx := callOf(rv)
			if cc == nil {
				if sc2, isCall := stripConvPlain(rv).(*ssa.Call); isCall && len(r.Results) == 1 {
					cc, idx = sc2, 0
				}
			}
			if cc != c || idx != i {
				return false
			}
		}
	}
	return len(rets) > 0
}
