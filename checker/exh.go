package main

// E2 proper: a small abstract interpreter over SSA used to decide whether a
// "cannot happen" block (ErrInvalid construction, panic) is feasible for
// parser-produced paths and documented item types. Values are finite sets:
// node shapes (from the grammar, E7), dynamic types of items, enum constants,
// booleans, function values. Blocks are judged per call context (call sites
// are expanded three levels up; callbacks stay paired with the call site that
// passed them).

import (
	"fmt"
	"go/constant"
	"go/token"
	"go/types"
	"os"
	"sort"
	"strings"

	"golang.org/x/tools/go/callgraph"
	"golang.org/x/tools/go/ssa"
)

var debugExh = os.Getenv("DEBUG_EXH") != ""

type AV struct {
	Top    bool
	Shapes ShapeSet
	Types  []types.Type // dynamic types; untyped nil = nil interface
	Ints   map[int64]bool
	BoolF  bool
	BoolT  bool
	Funcs  map[*ssa.Function]bool
	kind   string // shapes | types | ints | bool | funcs | other
}

func (a *AV) clone() *AV {
	b := &AV{Top: a.Top, BoolF: a.BoolF, BoolT: a.BoolT, kind: a.kind}
	if a.Shapes != nil {
		b.Shapes = ShapeSet{}
		b.Shapes.addAll(a.Shapes)
	}
	b.Types = append([]types.Type(nil), a.Types...)
	if a.Ints != nil {
		b.Ints = map[int64]bool{}
		for k := range a.Ints {
			b.Ints[k] = true
		}
	}
	if a.Funcs != nil {
		b.Funcs = map[*ssa.Function]bool{}
		for k := range a.Funcs {
			b.Funcs[k] = true
		}
	}
	return b
}

func (a *AV) empty() bool {
	if a.Top {
		return false
	}
	switch a.kind {
	case "shapes":
		return len(a.Shapes) == 0
	case "types":
		return len(a.Types) == 0
	case "ints":
		return len(a.Ints) == 0
	case "bool":
		return !a.BoolF && !a.BoolT
	case "funcs":
		return len(a.Funcs) == 0
	}
	return false
}

func (a *AV) addType(t types.Type) bool {
	for _, x := range a.Types {
		if types.Identical(x, t) {
			return false
		}
	}
	a.Types = append(a.Types, t)
	return true
}

// join merges b into a; reports change.
func (a *AV) join(b *AV) bool {
	if b == nil {
		return false
	}
	ch := false
	if b.Top && !a.Top {
		a.Top = true
		ch = true
	}
	if a.kind == "" || a.kind == "other" {
		if b.kind != "" && a.kind != b.kind {
			a.kind = b.kind
			ch = true
		}
	}
	if b.Shapes != nil {
		if a.Shapes == nil {
			a.Shapes = ShapeSet{}
		}
		if a.Shapes.addAll(b.Shapes) {
			ch = true
		}
	}
	for _, t := range b.Types {
		if a.addType(t) {
			ch = true
		}
	}
	for k := range b.Ints {
		if a.Ints == nil {
			a.Ints = map[int64]bool{}
		}
		if !a.Ints[k] {
			a.Ints[k] = true
			ch = true
		}
	}
	if b.BoolF && !a.BoolF {
		a.BoolF = true
		ch = true
	}
	if b.BoolT && !a.BoolT {
		a.BoolT = true
		ch = true
	}
	for k := range b.Funcs {
		if a.Funcs == nil {
			a.Funcs = map[*ssa.Function]bool{}
		}
		if !a.Funcs[k] {
			a.Funcs[k] = true
			ch = true
		}
	}
	return ch
}

func (a *AV) String(p *Prog) string {
	if a.Top {
		return "⊤"
	}
	switch a.kind {
	case "shapes":
		return "{" + strings.Join(p.shapeStrings(a.Shapes), ", ") + "}"
	case "types":
		var ss []string
		for _, t := range a.Types {
			ss = append(ss, typeStr(t))
		}
		sort.Strings(ss)
		return "{" + strings.Join(ss, ", ") + "}"
	case "ints":
		var ks []int
		for k := range a.Ints {
			ks = append(ks, int(k))
		}
		sort.Ints(ks)
		return fmt.Sprint(ks)
	case "bool":
		return fmt.Sprintf("{false:%v true:%v}", a.BoolF, a.BoolT)
	}
	return "?"
}

// Ctx is a call context: bindings of a function's parameters.
type Ctx struct {
	fn   *ssa.Function
	bind map[*ssa.Parameter]*AV
	desc string
}

type exh struct {
	nonNilMemo     map[nonNilKey]bool
	convHelperMemo map[*ssa.Function]bool
	p              *Prog
	g              *Grammar
	param          map[*ssa.Parameter]*AV // context-insensitive fixpoint
	ctxMemo        map[string][]*Ctx
	deadMemo       map[*ssa.Function]bool
	getterOf       map[*ssa.Function]*types.Var // ast method → the field it returns
	depthCap       int
	callDepth      int                // nesting of module-callee evaluation (global recursion guard)
	assumeNil      []ssa.Value        // values assumed nil while a phi edge is evaluated
	assumeBool     map[ssa.Value]bool // boolean results of inner calls fixed by the use site of the outer call
	memo           map[evalKey]*AV
	reachMemo      map[reachKey]map[*ssa.BasicBlock]bool
	callMemo       map[callKey]*AV
}

type callKey struct {
	c   *ssa.Call
	idx int
	ctx *Ctx
	at  *ssa.BasicBlock
}

type evalKey struct {
	v   ssa.Value
	ctx *Ctx
	at  *ssa.BasicBlock
}

func (p *Prog) exhEngine() (*exh, error) {
	if p.exhEng != nil {
		return p.exhEng, nil
	}
	g, err := p.grammar()
	if err != nil {
		return nil, err
	}
	e := &exh{p: p, g: g, reachMemo: map[reachKey]map[*ssa.BasicBlock]bool{}, param: map[*ssa.Parameter]*AV{}, ctxMemo: map[string][]*Ctx{}, getterOf: map[*ssa.Function]*types.Var{}, depthCap: 3}
	e.findGetters()
	e.fixpoint()
	e.reachMemo = map[reachKey]map[*ssa.BasicBlock]bool{}
	e.memo = map[evalKey]*AV{}
	e.callMemo = map[callKey]*AV{}
	p.exhEng = e
	return e, nil
}

// findGetters: methods of ast node types whose body is `return n.f`.
func (e *exh) findGetters() {
	for fn := range e.p.AllFns {
		if fnPkgPath(fn) != pkgAST || fn.Signature.Recv() == nil || len(fn.Blocks) != 1 || len(fn.Params) != 1 {
			continue
		}
		r, ok := fn.Blocks[0].Instrs[len(fn.Blocks[0].Instrs)-1].(*ssa.Return)
		if !ok || len(r.Results) != 1 {
			continue
		}
		u, ok := r.Results[0].(*ssa.UnOp)
		if !ok || u.Op != token.MUL {
			continue
		}
		fa, ok := u.X.(*ssa.FieldAddr)
		if !ok || fa.X != ssa.Value(fn.Params[0]) {
			continue
		}
		n := namedOf(fa.X.Type())
		if n == nil {
			continue
		}
		if st, ok := n.Underlying().(*types.Struct); ok {
			e.getterOf[fn] = st.Field(fa.Field)
		}
	}
}

func (e *exh) kindOf(t types.Type) string {
	switch {
	case types.Identical(t, e.p.A.Node) || isNodeKindPtr(e.p, t):
		return "shapes"
	case e.p.enumOf(t) != nil:
		return "ints"
	}
	switch u := t.Underlying().(type) {
	case *types.Basic:
		if u.Kind() == types.Bool {
			return "bool"
		}
		if u.Info()&types.IsInteger != 0 {
			return "ints"
		}
	case *types.Signature:
		return "funcs"
	case *types.Interface:
		if isErrorType(t) || isContextType(t) {
			return "other"
		}
		return "types"
	}
	return "other"
}

func (e *exh) top(t types.Type) *AV {
	av := &AV{kind: e.kindOf(t)}
	switch av.kind {
	case "types":
		// universe by declared interface
		if types.Identical(t, e.p.A.DateTime) {
			for _, d := range e.p.A.DateTimeImpls {
				av.Types = append(av.Types, types.NewPointer(d))
			}
			av.Types = append(av.Types, types.Typ[types.UntypedNil])
			return av
		}
		if it, ok := t.Underlying().(*types.Interface); ok && it.NumMethods() == 0 {
			av.Types = append(av.Types, e.p.A.ItemTypes...)
			return av
		}
		av.Top = true
	case "ints":
		if ei := e.p.enumOf(t); ei != nil {
			av.Ints = map[int64]bool{}
			for _, c := range ei.Consts {
				if v, ok := constant.Int64Val(c.Val()); ok {
					av.Ints[v] = true
				}
			}
			return av
		}
		// the executor's own three-valued types take declared constants only
		var own map[string]*types.Const
		if types.Identical(t, e.p.A.StatusType) {
			own = e.p.A.StatusConsts
		} else if types.Identical(t, e.p.A.PredType) {
			own = e.p.A.PredConsts
		}
		if own != nil {
			av.Ints = map[int64]bool{}
			for _, c := range own {
				av.Ints[constOf(c)] = true
			}
			return av
		}
		av.Top = true
	case "bool":
		av.BoolF, av.BoolT = true, true
	case "shapes":
		// unknown node: anything the grammar can build, linked or not, or nil
		av.Shapes = ShapeSet{}
		for _, s := range e.g.Built {
			av.Shapes.add(s)
			s2 := s
			s2.Next = true
			av.Shapes.add(s2)
		}
		av.Shapes.add(NShape{Nil: true})
		if pt, ok := t.(*types.Pointer); ok {
			for k, s := range av.Shapes {
				if s.Nil || pt.Elem() != types.Type(s.T) {
					delete(av.Shapes, k)
				}
			}
		}
	default:
		av.Top = true
	}
	return av
}

// fixpoint computes the context-insensitive parameter values.
func (e *exh) fixpoint() {
	fns := e.p.execFuncs()
	// include synthetic wrappers
	for fn := range e.p.AllFns {
		if fnPkgPath(fn) == pkgExec && fn.Blocks != nil && fn.Synthetic != "" {
			fns = append(fns, fn)
		}
	}
	sort.Slice(fns, func(i, j int) bool { return fns[i].String() < fns[j].String() })
	// roots: functions without module callers get ⊤ parameters
	for _, fn := range fns {
		n := e.p.CG.Nodes[fn]
		hasModCaller := false
		if n != nil {
			for _, ed := range n.In {
				if inModule(ed.Caller.Func) && ed.Site != nil {
					hasModCaller = true
				}
			}
		}
		if e.deadFn(fn) {
			continue // unexported and never called: its parameters stay ⊥
		}
		if !hasModCaller || (fn.Object() != nil && fn.Object().Exported()) {
			for _, q := range fn.Params {
				e.param[q] = e.top(q.Type())
			}
		}
	}
	insens := map[*ssa.Function]*Ctx{}
	for iter := 0; iter < 40; iter++ {
		changed := false
		e.reachMemo = map[reachKey]map[*ssa.BasicBlock]bool{}
		for _, fn := range fns {
			ctx := insens[fn]
			if ctx == nil {
				ctx = &Ctx{fn: fn}
				insens[fn] = ctx
			}
			for _, b := range fn.Blocks {
				for _, ins := range b.Instrs {
					ci, ok := ins.(ssa.CallInstruction)
					if !ok {
						continue
					}
					if !e.feasibleQuick(b, ctx) {
						continue
					}
					for _, callee := range e.p.calleesOf(ci) {
						if fnPkgPath(callee) != pkgExec || callee.Blocks == nil {
							continue
						}
						if ci.Common().StaticCallee() == nil {
							// dynamic: only if the called value may be this function
							fv := e.eval(ci.Common().Value, ctx, b, 0)
							if !fv.Top && !e.funcsContain(fv.Funcs, callee) {
								continue
							}
						}
						for pi, q := range callee.Params {
							a := argForParam(ci.Common(), pi)
							if a == nil {
								continue
							}
							av := e.evalAt(a, ctx, b)
							if debugExh && av.Top && av.kind == "shapes" && iter == 0 {
								fmt.Printf("DEBUG top node arg: %s -> %s param %s: arg %s = %s\n", fnName(fn), fnName(callee), q.Name(), a.Name(), a.String())
							}
							if e.param[q] == nil {
								e.param[q] = &AV{kind: e.kindOf(q.Type())}
							}
							if e.param[q].join(av) {
								changed = true
							}
						}
					}
				}
			}
		}
		if !changed {
			break
		}
	}
}

func (e *exh) funcsContain(fs map[*ssa.Function]bool, fn *ssa.Function) bool {
	for f := range fs {
		if f == fn || wraps(f, fn) || wraps(fn, f) {
			return true
		}
	}
	return false
}

func argForParam(cc *ssa.CallCommon, pi int) ssa.Value {
	if cc.IsInvoke() {
		if pi == 0 {
			return cc.Value
		}
		pi--
	}
	if pi < len(cc.Args) {
		return cc.Args[pi]
	}
	return nil
}

// evalAt evaluates v under ctx and refines it with the facts of block b.
func (e *exh) evalAt(v ssa.Value, ctx *Ctx, b *ssa.BasicBlock) *AV {
	useMemo := len(e.assumeNil) == 0 && len(e.assumeBool) == 0 && e.callDepth == 0 && e.memo != nil
	k := evalKey{v, ctx, b}
	if useMemo {
		if r, ok := e.memo[k]; ok {
			return r
		}
	}
	av := e.eval(v, ctx, b, 0)
	r := e.refineAt(av, v, b, ctx)
	if useMemo {
		e.memo[k] = r
	}
	return r
}

// condMentions: the branch condition says something about v (directly, via a
// type assertion of v, or via a getter called on v).
func (e *exh) condMentions(cond ssa.Value, v ssa.Value) bool {
	switch c := cond.(type) {
	case *ssa.Extract:
		if ta, ok := c.Tuple.(*ssa.TypeAssert); ok && c.Index == 1 {
			return sameValue(ta.X, v)
		}
	case *ssa.BinOp:
		for _, s := range []ssa.Value{c.X, c.Y} {
			if sameValue(s, v) {
				return true
			}
			if call, ok := s.(*ssa.Call); ok {
				if call.Call.IsInvoke() && e.sameNode(call.Call.Value, v) {
					return true
				}
				if !call.Call.IsInvoke() && len(call.Call.Args) == 1 && e.sameNode(call.Call.Args[0], v) {
					return true
				}
			}
		}
	case *ssa.Phi:
		if ops, _, ok := shortCircuit(c, 0); ok {
			for _, o := range ops {
				if e.condMentions(o, v) {
					return true
				}
			}
		}
	case *ssa.Call:
		// slices.Contains(constants[:], x) with x the value or a getter of it
		if _, subj, ok := containsConsts(c); ok {
			if sameValue(subj, v) {
				return true
			}
			if call, ok := subj.(*ssa.Call); ok && !call.Call.IsInvoke() && len(call.Call.Args) == 1 && e.sameNode(call.Call.Args[0], v) {
				return true
			}
		}
	}
	return false
}

// containsConsts: c is slices.Contains(list, x) where list is a slice of a
// local array literal of integer constants; returns the constants and x.
func containsConsts(c *ssa.Call) (map[int64]bool, ssa.Value, bool) {
	if calleeQualified(&c.Call) != "slices.Contains" || len(c.Call.Args) != 2 {
		return nil, nil, false
	}
	elems := variadicArgs(c.Call.Args[0])
	if len(elems) == 0 {
		// `arr := [...]T{…}` is built in a temporary and copied: follow the copy
		if sl, ok := c.Call.Args[0].(*ssa.Slice); ok {
			if al, ok := sl.X.(*ssa.Alloc); ok {
				nstores := 0
				for _, r := range *al.Referrers() {
					if st, ok := r.(*ssa.Store); ok && st.Addr == ssa.Value(al) {
						nstores++
						if u, ok := st.Val.(*ssa.UnOp); ok && u.Op == token.MUL {
							if src, ok := u.X.(*ssa.Alloc); ok {
								elems = variadicArgs(&ssa.Slice{X: src})
							}
						}
					}
				}
				if nstores != 1 {
					elems = nil
				}
			}
		}
	}
	if len(elems) == 0 {
		return nil, nil, false
	}
	ks := map[int64]bool{}
	for _, el := range elems {
		k, ok := constInt(el)
		if !ok {
			return nil, nil, false
		}
		ks[k] = true
	}
	return ks, c.Call.Args[1], true
}

// refineAt: abstract value of v on entry to block at, starting from av0 where
// v is defined and applying the branch conditions along every path (forward
// dataflow, union at joins). This handles multi-value case clauses, whose
// body has one predecessor per listed value.
func (e *exh) refineAt(av0 *AV, v ssa.Value, at *ssa.BasicBlock, ctx *Ctx) *AV {
	if av0 == nil || at == nil {
		return av0
	}
	switch av0.kind {
	case "shapes", "types", "ints":
	default:
		return e.refine(av0, v, realFacts(factsAt(at)), ctx, at)
	}
	fn := at.Parent()
	def := fn.Blocks[0]
	if ins, ok := v.(ssa.Instruction); ok && ins.Block() != nil && ins.Parent() == fn {
		def = ins.Block()
	}
	relevant := false
	for _, b := range fn.Blocks {
		if iff, ok := b.Instrs[len(b.Instrs)-1].(*ssa.If); ok && e.condMentions(iff.Cond, v) {
			relevant = true
			break
		}
	}
	if !relevant || def == at {
		return av0
	}
	in := map[*ssa.BasicBlock]*AV{def: av0}
	work := []*ssa.BasicBlock{def}
	for len(work) > 0 {
		b := work[0]
		work = work[1:]
		cur := in[b]
		iff, isIf := b.Instrs[len(b.Instrs)-1].(*ssa.If)
		for si, s := range b.Succs {
			out := cur
			if isIf && len(b.Succs) == 2 && b.Succs[0] != b.Succs[1] && e.condMentions(iff.Cond, v) {
				out = e.refine(cur, v, realFacts(appendFact(nil, Fact{Cond: iff.Cond, Truth: si == 0}, 0)), ctx, b)
			}
			if out.empty() {
				continue
			}
			if in[s] == nil {
				in[s] = out.clone()
				work = append(work, s)
			} else if in[s].join(out) {
				work = append(work, s)
			}
		}
	}
	if r := in[at]; r != nil {
		return r
	}
	return &AV{kind: av0.kind} // not reachable from the definition with a non-empty value
}

func (e *exh) eval(v ssa.Value, ctx *Ctx, at *ssa.BasicBlock, depth int) *AV {
	kind := e.kindOf(v.Type())
	out := &AV{kind: kind}
	if depth > 8 {
		return e.top(v.Type())
	}
	switch x := v.(type) {
	case *ssa.Parameter:
		if ctx != nil && ctx.bind != nil {
			if av, ok := ctx.bind[x]; ok && av != nil {
				return av.clone()
			}
		}
		if av := e.param[x]; av != nil {
			c := av.clone()
			if c.kind == "" || c.kind == "other" {
				c.kind = kind
			}
			return c
		}
		if fnPkgPath(x.Parent()) == pkgExec {
			// not (yet) reached by the fixpoint: bottom
			return &AV{kind: kind}
		}
		// parameter of a function of another package
		return e.top(v.Type())
	case *ssa.Const:
		switch kind {
		case "shapes":
			if x.Value == nil {
				out.Shapes = ShapeSet{}
				out.Shapes.add(NShape{Nil: true})
			}
		case "types":
			if x.Value == nil {
				out.Types = []types.Type{types.Typ[types.UntypedNil]}
			}
		case "ints":
			if x.Value != nil && x.Value.Kind() == constant.Int {
				if iv, ok := constant.Int64Val(x.Value); ok {
					out.Ints = map[int64]bool{iv: true}
				}
			}
		case "bool":
			if x.Value != nil && x.Value.Kind() == constant.Bool {
				if constant.BoolVal(x.Value) {
					out.BoolT = true
				} else {
					out.BoolF = true
				}
			}
		case "funcs":
			// nil func
		default:
			out.Top = true
		}
		return out
	case *ssa.MakeInterface:
		if kind == "shapes" {
			return e.refineAt(e.eval(x.X, ctx, at, depth+1), x.X, x.Block(), ctx)
		}
		if kind == "types" {
			out.Types = []types.Type{x.X.Type()}
			return out
		}
		return e.top(v.Type())
	case *ssa.ChangeInterface:
		in := e.refineAt(e.eval(x.X, ctx, at, depth+1), x.X, x.Block(), ctx)
		in.kind = kind
		return in
	case *ssa.ChangeType:
		in := e.eval(x.X, ctx, at, depth+1)
		in.kind = kind
		return in
	case *ssa.Convert:
		if kind == "ints" {
			in := e.eval(x.X, ctx, at, depth+1)
			if in.kind == "ints" {
				return in
			}
		}
		return e.top(v.Type())
	case *ssa.Phi:
		var useFacts []Fact
		if at != nil {
			useFacts = realFacts(factsAt(at))
		}
		for i, ed := range x.Edges {
			if e.phiEdgeExcluded(x, i, at, ctx) {
				continue
			}
			pred := x.Block().Preds[i]
			// sibling phis known at the use site give edge-local knowledge
			var extra []Fact
			npush := 0
			for _, ins := range x.Block().Instrs {
				sib, ok := ins.(*ssa.Phi)
				if !ok {
					break
				}
				if sib == x {
					continue
				}
				if isErrorType(sib.Type()) {
					if isNil, _ := nilFact(useFacts, sib); isNil {
						e.assumeNil = append(e.assumeNil, stripConv(sib.Edges[i]))
						npush++
					}
				} else if e.kindOf(sib.Type()) == "bool" {
					for _, f := range useFacts {
						if f.Cond == ssa.Value(sib) {
							extra = append(extra, Fact{Cond: sib.Edges[i], Truth: f.Truth})
						}
					}
				}
			}
			sub := e.eval(ed, ctx, pred, depth+1)
			sub = e.refineAt(sub, ed, pred, ctx)
			sub = e.refine(sub, ed, realFacts(edgeFacts(pred, succIndex(pred, x.Block())))[:edgeOwn(pred)], ctx, pred)
			if len(extra) > 0 {
				sub = e.refine(sub, ed, extra, ctx, pred)
			}
			e.assumeNil = e.assumeNil[:len(e.assumeNil)-npush]
			out.join(sub)
		}
		return out
	case *ssa.TypeAssert:
		in := e.refineAt(e.eval(x.X, ctx, at, depth+1), x.X, x.Block(), ctx)
		return e.filterAssert(in, x.AssertedType, true, kind)
	case *ssa.Extract:
		switch t := x.Tuple.(type) {
		case *ssa.TypeAssert:
			if x.Index == 0 {
				in := e.refineAt(e.eval(t.X, ctx, at, depth+1), t.X, t.Block(), ctx)
				return e.filterAssert(in, t.AssertedType, true, kind)
			}
			// the ok result: true iff some possible value passes the assertion,
			// false iff some possible value fails it
			in := e.refineAt(e.eval(t.X, ctx, at, depth+1), t.X, t.Block(), ctx)
			if in != nil && !in.Top && (in.kind == "types" || in.kind == "shapes") {
				pass := e.filterAssert(in.clone(), t.AssertedType, true, in.kind)
				fail := e.filterAssert(in.clone(), t.AssertedType, false, in.kind)
				ob := &AV{kind: "bool"}
				ob.BoolT = !pass.empty()
				ob.BoolF = !fail.empty()
				if ob.BoolT || ob.BoolF {
					return ob
				}
			}
			return e.top(v.Type())
		case *ssa.Call:
			return e.callResult(t, x.Index, ctx, at, depth, v.Type())
		case *ssa.Lookup, *ssa.Next, *ssa.Select:
			return e.top(v.Type())
		}
		return e.top(v.Type())
	case *ssa.Call:
		return e.callResult(x, 0, ctx, at, depth, v.Type())
	case *ssa.MakeClosure:
		if kind == "funcs" {
			out.Funcs = map[*ssa.Function]bool{x.Fn.(*ssa.Function): true}
			return out
		}
	case *ssa.Function:
		out.kind = "funcs"
		out.Funcs = map[*ssa.Function]bool{x: true}
		return out
	case *ssa.UnOp:
		if x.Op == token.MUL {
			// element of node.Subscripts()
			if ia, ok := x.X.(*ssa.IndexAddr); ok && kind == "shapes" {
				base := e.eval(ia.X, ctx, at, depth+1)
				if base.kind == "shapes" {
					return base
				}
			}
			// local cell
			if a, ok := x.X.(*ssa.Alloc); ok {
				n := 0
				for _, ref := range *a.Referrers() {
					if st, ok := ref.(*ssa.Store); ok && st.Addr == a {
						n++
						out.join(e.eval(st.Val, ctx, st.Block(), depth+1))
					}
				}
				if n > 0 {
					return out
				}
			}
		}
		if x.Op == token.NOT {
			in := e.eval(x.X, ctx, at, depth+1)
			if in.kind == "bool" && !in.Top {
				out.BoolF, out.BoolT = in.BoolT, in.BoolF
				return out
			}
		}
		return e.top(v.Type())
	case *ssa.BinOp:
		if kind == "bool" {
			if r := e.evalCond(x, ctx, at, depth); r != nil {
				return r
			}
		}
		return e.top(v.Type())
	}
	return e.top(v.Type())
}

// evalCond evaluates simple comparisons to a boolean set.
func (e *exh) evalCond(bo *ssa.BinOp, ctx *Ctx, at *ssa.BasicBlock, depth int) *AV {
	if bo.Op != token.EQL && bo.Op != token.NEQ {
		return nil
	}
	// x == nil for an item or a node: decided by whether nil is among its
	// dynamic types / shapes
	if isNilConst(bo.Y) || isNilConst(bo.X) {
		x := bo.X
		if isNilConst(bo.X) {
			x = bo.Y
		}
		if isNilConst(x) {
			return nil
		}
		in := e.eval(x, ctx, at, depth+1)
		in = e.refineAt(in, x, at, ctx)
		if in == nil || in.Top {
			return nil
		}
		var hasNil, hasOther bool
		switch in.kind {
		case "types":
			if len(in.Types) == 0 {
				return nil
			}
			for _, t := range in.Types {
				if types.Identical(t, types.Typ[types.UntypedNil]) {
					hasNil = true
				} else {
					hasOther = true
				}
			}
		case "shapes":
			if len(in.Shapes) == 0 {
				return nil
			}
			for _, sh := range in.Shapes {
				if sh.Nil {
					hasNil = true
				} else {
					hasOther = true
				}
			}
		default:
			return nil
		}
		out := &AV{kind: "bool"}
		if bo.Op == token.EQL {
			out.BoolT, out.BoolF = hasNil, hasOther
		} else {
			out.BoolT, out.BoolF = hasOther, hasNil
		}
		return out
	}
	// the comparison of two truth values (`(a == nil) == (b == nil)`)
	if e.kindOf(bo.X.Type()) == "bool" && e.kindOf(bo.Y.Type()) == "bool" {
		l, r := e.eval(bo.X, ctx, at, depth+1), e.eval(bo.Y, ctx, at, depth+1)
		if l == nil || r == nil || l.kind != "bool" || r.kind != "bool" || l.Top || r.Top || l.empty() || r.empty() {
			return nil
		}
		out := &AV{kind: "bool"}
		for _, lv := range []bool{false, true} {
			if (lv && !l.BoolT) || (!lv && !l.BoolF) {
				continue
			}
			for _, rv := range []bool{false, true} {
				if (rv && !r.BoolT) || (!rv && !r.BoolF) {
					continue
				}
				if (lv == rv) == (bo.Op == token.EQL) {
					out.BoolT = true
				} else {
					out.BoolF = true
				}
			}
		}
		return out
	}
	k, ok := constInt(bo.Y)
	if !ok {
		return nil
	}
	in := e.eval(bo.X, ctx, at, depth+1)
	if in.kind != "ints" || in.Top || len(in.Ints) == 0 {
		return nil
	}
	out := &AV{kind: "bool"}
	for v := range in.Ints {
		eq := v == k
		if bo.Op == token.NEQ {
			eq = !eq
		}
		if eq {
			out.BoolT = true
		} else {
			out.BoolF = true
		}
	}
	return out
}

func (e *exh) filterAssert(in *AV, t types.Type, keep bool, kind string) *AV {
	out := &AV{kind: kind}
	if in.Top {
		if keep && !types.IsInterface(t) {
			if kind == "shapes" {
				// all shapes of that kind the grammar builds
				out.Shapes = ShapeSet{}
				for _, s := range e.g.Built {
					if pt, ok := t.(*types.Pointer); ok && pt.Elem() == types.Type(s.T) {
						out.Shapes.add(s)
						s2 := s
						s2.Next = true
						out.Shapes.add(s2)
					}
				}
				return out
			}
			if kind == "types" {
				out.Types = []types.Type{t}
				return out
			}
		}
		out.Top = true
		return out
	}
	switch in.kind {
	case "shapes":
		out.kind = "shapes"
		out.Shapes = ShapeSet{}
		for _, s := range in.Shapes {
			m := shapeHasType(s, t)
			if m == keep {
				out.Shapes.add(s)
			}
		}
	case "types":
		for _, x := range in.Types {
			m := typeMatches(x, t)
			if m == keep {
				out.Types = append(out.Types, x)
			}
		}
		if kind != "types" && kind != "shapes" {
			// asserted to a concrete non-interface type: value exists iff set non-empty
			if len(out.Types) > 0 {
				return &AV{kind: kind, Top: true}
			}
			return &AV{kind: "types"}
		}
		out.kind = "types"
	default:
		out.Top = true
	}
	return out
}

func shapeHasType(s NShape, t types.Type) bool {
	if s.Nil {
		return false
	}
	if types.IsInterface(t) {
		return types.Implements(types.NewPointer(s.T), t.Underlying().(*types.Interface))
	}
	pt, ok := t.(*types.Pointer)
	return ok && pt.Elem() == types.Type(s.T)
}

func typeMatches(x, t types.Type) bool {
	if b, ok := x.(*types.Basic); ok && b.Kind() == types.UntypedNil {
		return false
	}
	if types.IsInterface(t) {
		return types.Implements(x, t.Underlying().(*types.Interface))
	}
	return types.Identical(x, t)
}

// callResult evaluates result #idx of a call.
func (e *exh) callResult(c *ssa.Call, idx int, ctx *Ctx, at *ssa.BasicBlock, depth int, rt types.Type) *AV {
	if e.callMemo != nil && len(e.assumeNil) == 0 && len(e.assumeBool) == 0 {
		k := callKey{c, idx, ctx, at}
		if r, ok := e.callMemo[k]; ok {
			return r.clone()
		}
		r := e.callResult1(c, idx, ctx, at, depth, rt)
		e.callMemo[k] = r
		return r.clone()
	}
	return e.callResult1(c, idx, ctx, at, depth, rt)
}

func (e *exh) callResult1(c *ssa.Call, idx int, ctx *Ctx, at *ssa.BasicBlock, depth int, rt types.Type) *AV {
	kind := e.kindOf(rt)
	callee := c.Call.StaticCallee()
	// ast getters and friends
	// A getter's receiver is an immutable node: what is known about it where
	// the result is used (a later switch on the operator, say) applies to the
	// call as well, so a getter hoisted into a local loses nothing.
	rb := c.Block()
	if at != nil && at.Parent() == c.Parent() && (at == rb || rb.Dominates(at)) {
		rb = at
	}
	if c.Call.IsInvoke() && c.Call.Method.Name() == "Next" && types.Identical(c.Call.Value.Type(), e.p.A.Node) {
		recv := e.evalAt(c.Call.Value, ctx, rb)
		return e.nextOf(recv)
	}
	if callee != nil && fnPkgPath(callee) == pkgAST && callee.Signature.Recv() != nil && len(c.Call.Args) >= 1 {
		recv := e.evalAt(c.Call.Args[0], ctx, rb)
		if callee.Name() == "Next" {
			return e.nextOf(recv)
		}
		if namedOf(callee.Signature.Recv().Type()) == e.p.A.ASTType && callee.Name() == "Root" {
			out := &AV{kind: "shapes", Shapes: ShapeSet{}}
			out.Shapes.addAll(e.g.RootShapes)
			return out
		}
		if f, ok := e.getterOf[callee]; ok {
			switch {
			case e.p.enumOf(f.Type()) != nil:
				out := &AV{kind: "ints", Ints: map[int64]bool{}}
				if recv.Top || recv.kind != "shapes" {
					return e.top(rt)
				}
				for _, s := range recv.Shapes {
					if !s.Nil && s.Enum >= 0 {
						out.Ints[s.Enum] = true
					}
				}
				return out
			case kind == "shapes" || isNodeSlice(e.p, f.Type()):
				out := &AV{kind: "shapes", Shapes: ShapeSet{}}
				if recv.Top || recv.kind != "shapes" {
					out.Top = true
					return out
				}
				for _, s := range recv.Shapes {
					if s.Nil {
						continue
					}
					if ss := e.g.Slots[slotKey{s.T, s.Enum, f}]; ss != nil {
						out.Shapes.addAll(ss)
					}
				}
				return out
			}
		}
		return e.top(rt)
	}
	// module callee with a body: union over its returns, parameters bound to
	// this call's arguments
	callees := e.p.calleesOf(c)
	if len(callees) == 0 {
		return e.top(rt)
	}
	out := &AV{kind: kind}
	// Functions outside package exec (constructors and parsers of package
	// types, ast getters) are small and do not recurse into the executor:
	// they are followed deeper, so that splitting one of them into helpers
	// does not lose the set of types it can return.
	leaf := true
	for _, f := range callees {
		if fnPkgPath(f) == pkgExec {
			leaf = false
		}
	}
	if (!leaf && e.callDepth >= 3) || e.callDepth >= 7 {
		return e.top(rt)
	}
	e.callDepth++
	defer func() { e.callDepth-- }()
	for _, f := range callees {
		if !inModule(f) || f.Blocks == nil || (!leaf && depth > 4) {
			out.join(e.top(rt))
			continue
		}
		sub := &Ctx{fn: f, bind: map[*ssa.Parameter]*AV{}}
		for pi, q := range f.Params {
			if a := argForParam(&c.Call, pi); a != nil {
				sub.bind[q] = e.evalAt(a, ctx, c.Block())
			}
		}
		facts := realFacts(factsAt(at))
		for _, r := range returnsOf(f) {
			if idx >= len(r.Results) {
				continue
			}
			if !e.feasibleQuick(r.Instr.Block(), sub) {
				continue
			}
			// a small plain function (a conversion or comparison helper): its
			// returns are judged by reachability edge by edge, which sees the
			// arms of a type switch with several types per case
			if !isMethodOfExecutor(e.p, f) && len(f.Blocks) <= 40 && len(e.assumeNil) == 0 && len(e.assumeBool) == 0 && !e.feasible(r.Instr.Block(), sub) {
				continue
			}
			if e.returnExcluded(c, r, facts) {
				continue
			}
			nd := depth + 2
			if leaf {
				nd = 0
			}
			// `return g(…)`: what the use site knows about the sibling results
			// of this call (ok == true, err == nil) holds for g's results too
			var setBool []ssa.Value
			var flagFacts []Fact
			npush := 0
			for i, sv := range r.Results {
				ex := extractOf(c, i)
				if ex != nil && i != idx && e.kindOf(sv.Type()) == "bool" {
					// `return next, next != nil`: what the use site knows
					// about the flag holds for the test it was computed from
					if bo, ok := stripConv(sv).(*ssa.BinOp); ok {
						truth, known := e.assumeBool[stripConv(ex)]
						for _, f := range facts {
							if sameValue(f.Cond, ex) {
								truth, known = f.Truth, true
							}
						}
						if known {
							flagFacts = append(flagFacts, Fact{Cond: bo, Truth: truth})
						}
					}
				}
				inner, isEx := stripConv(sv).(*ssa.Extract)
				if ex == nil || !isEx || i == idx {
					continue
				}
				switch {
				case e.kindOf(sv.Type()) == "bool":
					truth, known := e.assumeBool[stripConv(ex)]
					for _, f := range facts {
						if sameValue(f.Cond, ex) {
							truth, known = f.Truth, true
						}
					}
					if known {
						if e.assumeBool == nil {
							e.assumeBool = map[ssa.Value]bool{}
						}
						if _, had := e.assumeBool[inner]; !had {
							e.assumeBool[inner] = truth
							setBool = append(setBool, inner)
						}
					}
				case isErrorType(sv.Type()):
					isNil, _ := nilFact(facts, ex)
					for _, an := range e.assumeNil {
						if an == stripConv(ex) {
							isNil = true
						}
					}
					if isNil {
						e.assumeNil = append(e.assumeNil, inner)
						npush++
					}
				}
			}
			rv := e.eval(r.Results[idx], sub, r.Instr.Block(), nd)
			rv = e.refine(rv, r.Results[idx], append(realFacts(factsAt(r.Instr.Block())), flagFacts...), sub, r.Instr.Block())
			// in a small plain helper also by the tests on the ways to the
			// return (the arm of a type switch with several types per case)
			if !isMethodOfExecutor(e.p, f) && len(f.Blocks) <= 40 && (rv.kind == "types" || rv.kind == "shapes") {
				rv = e.refineAt(rv, r.Results[idx], r.Instr.Block(), sub)
			}
			for _, b := range setBool {
				delete(e.assumeBool, b)
			}
			e.assumeNil = e.assumeNil[:len(e.assumeNil)-npush]
			out.join(rv)
		}
	}
	if out.kind == "" {
		out.kind = kind
	}
	return out
}

func isNodeSlice(p *Prog, t types.Type) bool {
	sl, ok := t.(*types.Slice)
	return ok && types.Identical(sl.Elem(), p.A.Node)
}

func (e *exh) nextOf(recv *AV) *AV {
	out := &AV{kind: "shapes", Shapes: ShapeSet{}}
	if recv.Top || recv.kind != "shapes" {
		out.Shapes.addAll(e.g.NextShapes)
		out.Shapes.add(NShape{Nil: true})
		return out
	}
	for _, s := range recv.Shapes {
		if s.Nil {
			continue
		}
		if s.Next {
			out.Shapes.addAll(e.g.NextShapes)
		} else {
			out.Shapes.add(NShape{Nil: true})
		}
	}
	return out
}

// returnExcluded: the facts at the use site contradict this return of the
// callee (err == nil vs. a return that builds an error; ok == true vs. a
// return of constant false).
func (e *exh) returnExcluded(c *ssa.Call, r RetSite, facts []Fact) bool {
	for i, rv := range r.Results {
		ex := extractOf(c, i)
		if ex == nil {
			continue
		}
		t := rv.Type()
		switch {
		case isErrorType(t):
			isNil, notNil := nilFact(facts, ex)
			for _, an := range e.assumeNil {
				if an == stripConv(ex) {
					isNil = true
				}
			}
			definitelyNonNil := e.definitelyNonNilErr(rv, 0)
			if _, nn := nilFact(realFacts(factsAt(r.Instr.Block())), stripConv(rv)); nn {
				definitelyNonNil = true
			}
			definitelyNil := isNilConst(stripConv(rv))
			if isNil && definitelyNonNil {
				return true
			}
			if notNil && definitelyNil {
				return true
			}
		case e.kindOf(t) == "bool":
			k, isC := stripConv(rv).(*ssa.Const)
			if !isC || k.Value == nil {
				continue
			}
			val := constant.BoolVal(k.Value)
			for _, f := range facts {
				if sameValue(f.Cond, ex) && f.Truth != val {
					return true
				}
			}
			if tv, ok := e.assumeBool[stripConv(ex)]; ok && tv != val {
				return true
			}
		}
	}
	return false
}

func (e *exh) definitelyNonNilErr(v ssa.Value, depth int) bool {
	v = stripConv(v)
	if depth > 3 {
		return false
	}
	if c, ok := v.(*ssa.Call); ok {
		q := calleeQualified(&c.Call)
		if q == "fmt.Errorf" || q == "errors.New" {
			return true
		}
		if sc := c.Call.StaticCallee(); sc != nil && inModule(sc) && sc.Blocks != nil {
			rs := returnsOf(sc)
			if len(rs) == 0 {
				return false
			}
			for _, r := range rs {
				if !e.definitelyNonNilErr(r.Results[len(r.Results)-1], depth+1) {
					return false
				}
			}
			return true
		}
	}
	if ex, ok := v.(*ssa.Extract); ok {
		if c, ok := ex.Tuple.(*ssa.Call); ok {
			if sc := c.Call.StaticCallee(); sc != nil && inModule(sc) && sc.Blocks != nil {
				rs := returnsOf(sc)
				if len(rs) == 0 {
					return false
				}
				for _, r := range rs {
					if ex.Index >= len(r.Results) || !e.definitelyNonNilErr(r.Results[ex.Index], depth+1) {
						return false
					}
				}
				return true
			}
		}
	}
	return false
}

// errMustBeNonNil: under ctx the error value v cannot be nil: it is
// constructed, or every feasible return of the module function it comes from
// (parameters bound to this call's arguments) answers such an error, or it is
// a merge all of whose feasible ways in carry one.
func (e *exh) errMustBeNonNil(v ssa.Value, ctx *Ctx, at *ssa.BasicBlock, depth int) bool {
	if depth > 3 || v == nil {
		return false
	}
	if e.definitelyNonNilErr(v, 0) {
		return true
	}
	switch x := stripConvPlain(v).(type) {
	case *ssa.Phi:
		// worth the walk only when some way in carries a conversion helper's error
		worth := false
		for _, ev := range x.Edges {
			if e.definitelyNonNilErr(ev, 0) {
				worth = true // an arm that assigns a constructed error (`err = targetErr(name)`)
			}
			if ex, ok := stripConvPlain(ev).(*ssa.Extract); ok {
				if c, ok := ex.Tuple.(*ssa.Call); ok && !c.Call.IsInvoke() {
					if sc := c.Call.StaticCallee(); sc != nil && inModule(sc) && sc.Blocks != nil && e.conversionHelper(sc, ex.Index) {
						worth = true
					}
				}
			}
		}
		if !worth {
			return false
		}
		n := 0
		for i, ev := range x.Edges {
			pred := x.Block().Preds[i]
			behindNil := !e.phiEdgeFeasible(x, i, ctx, depth)
			if debugExh {
				fmt.Fprintf(os.Stderr, "  phi %s edge %d from block %d behindNil=%v\n", x.Name(), i, pred.Index, behindNil)
			}
			if behindNil {
				continue
			}
			n++
			if !e.errMustBeNonNil(ev, ctx, pred, depth+1) {
				if debugExh {
					fmt.Fprintf(os.Stderr, "  phi %s edge %d may be nil\n", x.Name(), i)
				}
				return false
			}
		}
		if debugExh {
			fmt.Fprintf(os.Stderr, "  phi %s: %d ways in, all non-nil\n", x.Name(), n)
		}
		return n > 0
	case *ssa.Extract:
		c, ok := x.Tuple.(*ssa.Call)
		if !ok || c.Call.IsInvoke() {
			return false
		}
		sc := c.Call.StaticCallee()
		if sc == nil || !inModule(sc) || sc.Blocks == nil {
			return false
		}
		// only conversion helpers: plain functions of the module that take an
		// item (`any`) and have a return with a constructed error; evaluation
		// methods fail or not for reasons no type binding decides
		if !e.conversionHelper(sc, x.Index) {
			return false
		}
		sub := e.subCtx(c, sc, ctx)
		sig := ""
		for _, q := range sc.Params {
			if av := sub.bind[q]; av != nil && (av.kind == "types" || av.kind == "ints" || av.kind == "bool") {
				sig += q.Name() + "=" + av.String(e.p) + ";"
			}
		}
		key := nonNilKey{sc, x.Index, sig}
		if r, ok := e.nonNilMemo[key]; ok {
			return r
		}
		if e.nonNilMemo == nil {
			e.nonNilMemo = map[nonNilKey]bool{}
		}
		e.nonNilMemo[key] = false
		n := 0
		res := true
		for _, r := range returnsOf(sc) {
			if x.Index >= len(r.Results) || !e.feasible(r.Instr.Block(), sub) {
				continue
			}
			n++
			if !e.errMustBeNonNil(r.Results[x.Index], sub, r.Instr.Block(), depth+1) {
				res = false
				break
			}
		}
		res = res && n > 0
		if debugExh {
			fmt.Fprintf(os.Stderr, "errMustBeNonNil %s #%d [%s] feasible returns=%d -> %v\n", fnName(sc), x.Index, sig, n, res)
		}
		e.nonNilMemo[key] = res
		return res
	}
	return false
}

// phiEdgeFeasible: the i-th way into the merge can be taken under ctx: its
// block is reachable, the branch is open, and it does not lie behind a test
// that found nil an error which, under ctx, cannot be nil.
func (e *exh) phiEdgeFeasible(x *ssa.Phi, i int, ctx *Ctx, depth int) bool {
	pred := x.Block().Preds[i]
	if !e.feasible(pred, ctx) || !e.feasibleQuick(pred, ctx) || !e.edgeOK(pred, succIndex(pred, x.Block()), ctx) {
		return false
	}
	// (feasible answers "yes" while it is being computed for this very
	// function, so the dominating tests are looked at here as well)
	for _, pf := range realFacts(edgeFacts(pred, succIndex(pred, x.Block()))) {
		bo, ok := pf.Cond.(*ssa.BinOp)
		if !ok || (bo.Op != token.EQL && bo.Op != token.NEQ) || (bo.Op == token.EQL) != pf.Truth {
			continue
		}
		var y ssa.Value
		switch {
		case isNilConst(bo.Y):
			y = bo.X
		case isNilConst(bo.X):
			y = bo.Y
		}
		if y != nil && y != ssa.Value(x) && y.Type() != nil && isErrorType(y.Type()) {
			if _, isPhi := stripConvPlain(y).(*ssa.Phi); !isPhi && e.errMustBeNonNil(y, ctx, pred, depth+1) {
				return false
			}
		}
	}
	return true
}

// errMustBeNil: v is the error result of a plain helper of the module that is
// handed an item, and under ctx every return of the helper that can be taken
// answers a nil error.
func (e *exh) errMustBeNil(v ssa.Value, ctx *Ctx, depth int) bool {
	if depth > 2 || v == nil {
		return false
	}
	if isNilConst(stripConvPlain(v)) {
		return true
	}
	x, ok := stripConvPlain(v).(*ssa.Extract)
	if !ok {
		return false
	}
	c, ok := x.Tuple.(*ssa.Call)
	if !ok || c.Call.IsInvoke() {
		return false
	}
	sc := c.Call.StaticCallee()
	if sc == nil || !inModule(sc) || sc.Blocks == nil || len(sc.Blocks) > 60 || isMethodOfExecutor(e.p, sc) || e.p.pairKind(sc.Signature) != "" {
		return false
	}
	takesItem := false
	for _, q := range sc.Params {
		if isContextType(q.Type()) {
			return false
		}
		if it, ok := q.Type().Underlying().(*types.Interface); ok && it.NumMethods() == 0 {
			takesItem = true
		}
	}
	if !takesItem {
		return false
	}
	sub := e.subCtx(c, sc, ctx)
	sig := "nil:"
	for _, q := range sc.Params {
		if av := sub.bind[q]; av != nil && (av.kind == "types" || av.kind == "ints" || av.kind == "bool") {
			sig += q.Name() + "=" + av.String(e.p) + ";"
		}
	}
	key := nonNilKey{sc, x.Index, sig}
	if r, ok := e.nonNilMemo[key]; ok {
		return r
	}
	if e.nonNilMemo == nil {
		e.nonNilMemo = map[nonNilKey]bool{}
	}
	e.nonNilMemo[key] = false
	n, res := 0, true
	for _, r := range returnsOf(sc) {
		if x.Index >= len(r.Results) || !e.feasible(r.Instr.Block(), sub) {
			continue
		}
		n++
		if !e.errMustBeNil(r.Results[x.Index], sub, depth+1) {
			res = false
			break
		}
	}
	res = res && n > 0
	e.nonNilMemo[key] = res
	return res
}

type nonNilKey struct {
	fn  *ssa.Function
	idx int
	sig string
}

func (e *exh) conversionHelper(sc *ssa.Function, idx int) bool {
	if r, ok := e.convHelperMemo[sc]; ok {
		return r
	}
	if e.convHelperMemo == nil {
		e.convHelperMemo = map[*ssa.Function]bool{}
	}
	res := false
	if !isMethodOfExecutor(e.p, sc) && e.p.pairKind(sc.Signature) == "" && len(sc.Blocks) <= 60 {
		takesItem := false
		for _, q := range sc.Params {
			if isContextType(q.Type()) {
				takesItem = false
				break
			}
			if it, ok := q.Type().Underlying().(*types.Interface); ok && it.NumMethods() == 0 {
				takesItem = true
			}
		}
		if takesItem {
			for _, r := range returnsOf(sc) {
				if idx < len(r.Results) && e.definitelyNonNilErr(r.Results[idx], 0) {
					res = true
				}
			}
		}
	}
	e.convHelperMemo[sc] = res
	return res
}

// phiEdgeExcluded: edge i of phi cannot have been taken given the facts at
// the use block: a sibling phi of error type is known nil there while its
// i-th operand is definitely non-nil (or vice versa).
func (e *exh) phiEdgeExcluded(ph *ssa.Phi, i int, at *ssa.BasicBlock, ctx *Ctx) bool {
	if at == nil {
		return false
	}
	facts := realFacts(factsAt(at))
	// the edge leaves a block that is only reached when an error that is
	// definitely non-nil tested nil (`if err := alwaysFails(); err != nil { return }`)
	if i < len(ph.Block().Preds) {
		pred := ph.Block().Preds[i]
		if e.nilTestContradiction(realFacts(edgeFacts(pred, succIndex(pred, ph.Block())))) {
			return true
		}
	}
	for _, ins := range ph.Block().Instrs {
		sib, ok := ins.(*ssa.Phi)
		if !ok {
			break
		}
		if sib == ph || !isErrorType(sib.Type()) {
			continue
		}
		isNil, _ := nilFact(facts, sib)
		if isNil && e.definitelyNonNilErr(sib.Edges[i], 0) {
			return true
		}
	}
	return false
}

// nilTestContradiction: one of the facts says that an error value which is
// definitely non-nil (a constructed error, the result of a function all of
// whose returns are such) is nil.
func (e *exh) nilTestContradiction(fs []Fact) bool {
	for _, f := range fs {
		bo, ok := f.Cond.(*ssa.BinOp)
		if !ok || (bo.Op != token.EQL && bo.Op != token.NEQ) {
			continue
		}
		var x ssa.Value
		switch {
		case isNilConst(bo.Y):
			x = bo.X
		case isNilConst(bo.X):
			x = bo.Y
		default:
			continue
		}
		if x.Type() == nil || !isErrorType(x.Type()) {
			continue
		}
		saysNil := (bo.Op == token.EQL) == f.Truth
		if saysNil && e.definitelyNonNilErr(x, 0) {
			return true
		}
	}
	return false
}

// refine applies the facts that speak about v.
func (e *exh) refine(av *AV, v ssa.Value, fs []Fact, ctx *Ctx, at *ssa.BasicBlock) *AV {
	if av == nil {
		return av
	}
	out := av
	cloned := false
	mut := func() *AV {
		if !cloned {
			out = out.clone()
			cloned = true
		}
		return out
	}
	for _, f := range fs {
		switch c := f.Cond.(type) {
		case *ssa.Phi:
			// a true `a || b || …` (a false `a && b && …`): one of the operands
			// holds (fails): the union of the refinements by each of them
			ops, isOr, ok := shortCircuit(c, 0)
			if !ok || isOr != f.Truth || len(ops) > 16 {
				continue
			}
			mentions := false
			for _, o := range ops {
				if e.condMentions(o, v) {
					mentions = true
				}
			}
			if !mentions {
				continue
			}
			var u *AV
			for _, o := range ops {
				r := e.refine(out.clone(), v, realFacts(appendFact(nil, Fact{Cond: o, Truth: f.Truth}, 0)), ctx, at)
				if u == nil {
					u = r.clone()
				} else {
					u.join(r)
				}
			}
			if u != nil {
				out, cloned = u, true
			}
		case *ssa.Extract:
			ta, ok := c.Tuple.(*ssa.TypeAssert)
			if !ok || c.Index != 1 || !sameValue(ta.X, v) {
				continue
			}
			if out.Top {
				if f.Truth {
					r := e.filterAssert(out, ta.AssertedType, true, out.kind)
					out, cloned = r, true
				}
				continue
			}
			r := e.filterAssert(out, ta.AssertedType, f.Truth, out.kind)
			if r.kind == out.kind || out.kind == "shapes" || out.kind == "types" {
				out, cloned = r, true
			}
		case *ssa.Call:
			ks, subj, ok := containsConsts(c)
			if !ok {
				continue
			}
			switch {
			case sameValue(subj, v) && out.kind == "ints" && !out.Top:
				m := mut()
				for x := range m.Ints {
					if ks[x] != f.Truth {
						delete(m.Ints, x)
					}
				}
			case out.kind == "shapes" && !out.Top:
				call, isCall := subj.(*ssa.Call)
				if !isCall || call.Call.IsInvoke() || len(call.Call.Args) != 1 || !e.sameNode(call.Call.Args[0], v) {
					continue
				}
				sc := call.Call.StaticCallee()
				if fld, ok := e.getterOf[sc]; sc == nil || !ok || e.p.enumOf(fld.Type()) == nil {
					continue
				}
				m := mut()
				for key, s := range m.Shapes {
					if !s.Nil && ks[s.Enum] != f.Truth {
						delete(m.Shapes, key)
					}
				}
			}
		case *ssa.BinOp:
			if c.Op != token.EQL && c.Op != token.NEQ {
				continue
			}
			eq := (c.Op == token.EQL) == f.Truth
			// v compared with a constant
			var other ssa.Value
			switch {
			case sameValue(c.X, v):
				other = c.Y
			case sameValue(c.Y, v):
				other = c.X
			}
			if other != nil {
				if k, ok := other.(*ssa.Const); ok {
					m := mut()
					if k.Value == nil {
						switch m.kind {
						case "shapes":
							if !m.Top {
								for key, s := range m.Shapes {
									if s.Nil != eq {
										delete(m.Shapes, key)
									}
								}
							} else if eq {
								m.Top = false
								m.Shapes = ShapeSet{}
								m.Shapes.add(NShape{Nil: true})
							}
						case "types":
							if !m.Top {
								var keep []types.Type
								for _, t := range m.Types {
									b, isB := t.(*types.Basic)
									isNilT := isB && b.Kind() == types.UntypedNil
									if isNilT == eq {
										keep = append(keep, t)
									}
								}
								m.Types = keep
							}
						}
					} else if iv, ok := constInt(k); ok && m.kind == "ints" && !m.Top {
						for x := range m.Ints {
							if (x == iv) != eq {
								delete(m.Ints, x)
							}
						}
					}
				}
				continue
			}
			// getter(v) compared with a constant: enum / Next facts on a node
			if out.kind != "shapes" || out.Top {
				continue
			}
			for _, side := range [][2]ssa.Value{{c.X, c.Y}, {c.Y, c.X}} {
				call, ok := side[0].(*ssa.Call)
				if !ok {
					continue
				}
				var recv ssa.Value
				isNext := false
				if call.Call.IsInvoke() && call.Call.Method.Name() == "Next" {
					recv, isNext = call.Call.Value, true
				} else if sc := call.Call.StaticCallee(); sc != nil && fnPkgPath(sc) == pkgAST && len(call.Call.Args) == 1 {
					recv = call.Call.Args[0]
					isNext = sc.Name() == "Next"
					if !isNext {
						if fld, ok := e.getterOf[sc]; !ok || e.p.enumOf(fld.Type()) == nil {
							continue
						}
					}
				} else {
					continue
				}
				if !e.sameNode(recv, v) {
					continue
				}
				m := mut()
				if isNext {
					if k, ok := side[1].(*ssa.Const); ok && k.Value == nil {
						for key, s := range m.Shapes {
							if s.Nil {
								continue
							}
							hasNext := s.Next
							// Next() == nil  ⇔ !hasNext
							if (!hasNext) != eq {
								delete(m.Shapes, key)
							}
						}
					}
				} else if iv, ok := constInt(side[1]); ok {
					for key, s := range m.Shapes {
						if s.Nil {
							continue
						}
						if (s.Enum == iv) != eq {
							delete(m.Shapes, key)
						}
					}
				}
			}
		}
	}
	return out
}

// sameNode: a and b denote the same node value, looking through type
// assertions of one to the other.
func (e *exh) sameNode(a, b ssa.Value) bool {
	base := func(v ssa.Value) ssa.Value {
		for i := 0; i < 4; i++ {
			v = stripConv(v)
			switch x := v.(type) {
			case *ssa.MakeInterface:
				v = x.X
			case *ssa.TypeAssert:
				v = x.X
			case *ssa.Extract:
				if ta, ok := x.Tuple.(*ssa.TypeAssert); ok && x.Index == 0 {
					v = ta.X
				} else {
					return v
				}
			default:
				return v
			}
		}
		return v
	}
	return sameValue(base(a), base(b))
}

// feasible: can block b be reached under ctx? Forward reachability over the
// CFG where an edge is pruned when its branch condition is unsatisfiable for
// the abstract value (joined over all paths) of one of its subjects.
func (e *exh) feasible(b *ssa.BasicBlock, ctx *Ctx) bool {
	fn := b.Parent()
	useMemo := len(e.assumeNil) == 0 && len(e.assumeBool) == 0
	k := reachKey{fn, ctx}
	if useMemo {
		if r, ok := e.reachMemo[k]; ok {
			return r[b]
		}
	}
	reach := map[*ssa.BasicBlock]bool{fn.Blocks[0]: true}
	if useMemo {
		// cycle guard for recursive evaluation: assume everything reachable
		all := map[*ssa.BasicBlock]bool{}
		for _, x := range fn.Blocks {
			all[x] = true
		}
		e.reachMemo[k] = all
	}
	work := []*ssa.BasicBlock{fn.Blocks[0]}
	for len(work) > 0 {
		p := work[0]
		work = work[1:]
		for si, s := range p.Succs {
			if reach[s] {
				continue
			}
			if !e.edgeOK(p, si, ctx) {
				continue
			}
			reach[s] = true
			work = append(work, s)
		}
	}
	if fn.Recover != nil {
		reach[fn.Recover] = true
	}
	if useMemo {
		e.reachMemo[k] = reach
	}
	return reach[b]
}

// feasibleQuick: cheap necessary check with the dominator-chain facts only.
func (e *exh) feasibleQuick(b *ssa.BasicBlock, ctx *Ctx) bool {
	fs := realFacts(factsAt(b))
	done := map[ssa.Value]bool{}
	for _, f := range fs {
		for _, subj := range factSubjects(f) {
			if done[subj] {
				continue
			}
			done[subj] = true
			k := e.kindOf(subj.Type())
			if k == "other" || k == "funcs" {
				continue
			}
			av := e.eval(subj, ctx, b, 0)
			av = e.refine(av, subj, fs, ctx, b)
			if av.empty() {
				return false
			}
		}
		// a comparison whose truth the context settles
		// (`(left == nil) == (right == nil)` with the operand types bound)
		if bo, ok := f.Cond.(*ssa.BinOp); ok && ctx != nil && e.kindOf(bo.Type()) == "bool" {
			if at := bo.Block(); at != nil {
				if av := e.evalCond(bo, ctx, at, 0); av != nil && av.kind == "bool" && !av.Top && !av.empty() {
					if (f.Truth && !av.BoolT) || (!f.Truth && !av.BoolF) {
						return false
					}
				}
			}
		}
	}
	return true
}

type reachKey struct {
	fn  *ssa.Function
	ctx *Ctx
}

// edgeOK: the branch p → successor #si can be taken under ctx.
func (e *exh) edgeOK(p *ssa.BasicBlock, si int, ctx *Ctx) bool {
	iff, ok := p.Instrs[len(p.Instrs)-1].(*ssa.If)
	if !ok || len(p.Succs) != 2 || p.Succs[0] == p.Succs[1] {
		return true
	}
	f := Fact{Cond: iff.Cond, Truth: si == 0}
	if e.nilTestContradiction([]Fact{f}) {
		return false
	}
	// the same with the call context: `v, err := convert(value)` answers an
	// error for every value of the types bound here
	for _, cf := range realFacts(appendFact(nil, f, 0)) {
		bo, ok := cf.Cond.(*ssa.BinOp)
		if !ok || (bo.Op != token.EQL && bo.Op != token.NEQ) {
			continue
		}
		var x ssa.Value
		switch {
		case isNilConst(bo.Y):
			x = bo.X
		case isNilConst(bo.X):
			x = bo.Y
		default:
			continue
		}
		if x.Type() == nil || !isErrorType(x.Type()) {
			continue
		}
		if (bo.Op == token.EQL) == cf.Truth && ctx != nil && e.errMustBeNonNil(x, ctx, p, 0) {
			return false
		}
		// … or no error for any value of the types bound here (`num, err :=
		// toNumber(v)` with v an int64)
		if (bo.Op == token.NEQ) == cf.Truth && ctx != nil && e.errMustBeNil(x, ctx, 0) {
			return false
		}
	}
	for _, subj := range factSubjects(f) {
		k := e.kindOf(subj.Type())
		if k == "other" || k == "funcs" {
			continue
		}
		av := e.evalAt(subj, ctx, p)
		av = e.refine(av, subj, realFacts(appendFact(nil, f, 0)), ctx, p)
		if av.empty() {
			return false
		}
	}
	if e.kindOf(iff.Cond.Type()) == "bool" {
		av := e.eval(iff.Cond, ctx, p, 0)
		if av.kind == "bool" && !av.Top {
			if f.Truth && !av.BoolT || !f.Truth && !av.BoolF {
				return false
			}
		}
	}
	return true
}

// factSubjects lists the values a fact speaks about.
func factSubjects(f Fact) []ssa.Value {
	switch c := f.Cond.(type) {
	case *ssa.Extract:
		if ta, ok := c.Tuple.(*ssa.TypeAssert); ok && c.Index == 1 {
			return []ssa.Value{ta.X}
		}
	case *ssa.BinOp:
		var out []ssa.Value
		for _, s := range []ssa.Value{c.X, c.Y} {
			if _, isC := s.(*ssa.Const); isC {
				continue
			}
			out = append(out, s)
			if call, ok := s.(*ssa.Call); ok {
				if call.Call.IsInvoke() {
					out = append(out, call.Call.Value)
				} else if len(call.Call.Args) == 1 {
					out = append(out, call.Call.Args[0])
				}
			}
		}
		return out
	case *ssa.Phi:
		if ops, _, ok := shortCircuit(c, 0); ok {
			var out []ssa.Value
			for _, o := range ops {
				out = append(out, factSubjects(Fact{Cond: o, Truth: f.Truth})...)
			}
			return out
		}
	case *ssa.Call:
		if _, subj, ok := containsConsts(c); ok {
			out := []ssa.Value{subj}
			if call, ok := subj.(*ssa.Call); ok && !call.Call.IsInvoke() && len(call.Call.Args) == 1 {
				out = append(out, call.Call.Args[0])
			}
			return out
		}
	case *ssa.UnOp:
		if c.Op == token.NOT {
			return factSubjects(Fact{Cond: c.X, Truth: !f.Truth})
		}
	}
	return nil
}

// contexts enumerates the call contexts of fn, depth levels up.
func (e *exh) contexts(fn *ssa.Function, depth int) []*Ctx { return e.contextsH(fn, depth, 0) }

// passThrough: every argument of the call that the interpreter tracks (nodes,
// function values, enum constants, booleans) is a parameter of the caller or a
// constant: the caller adds no information of its own, so it does not use up
// a level of call-context depth (at most two such hops per chain).
func (e *exh) passThrough(site ssa.CallInstruction) bool {
	tracked := 0
	for _, a := range site.Common().Args {
		k := e.kindOf(a.Type())
		if k == "" || k == "other" {
			continue
		}
		switch stripConv(a).(type) {
		case *ssa.Parameter, *ssa.Const:
			tracked++
		default:
			if isContextType(a.Type()) {
				continue
			}
			if _, isRecv := a.Type().Underlying().(*types.Pointer); isRecv && namedOf(a.Type()) == e.p.A.Executor {
				continue
			}
			return false
		}
	}
	return tracked > 0
}

func (e *exh) contextsH(fn *ssa.Function, depth, hops int) []*Ctx {
	key := fmt.Sprintf("%p/%d/%d", fn, depth, hops)
	if c, ok := e.ctxMemo[key]; ok {
		return c
	}
	e.ctxMemo[key] = []*Ctx{{fn: fn, desc: "recursive"}} // cycle guard: insensitive
	var out []*Ctx
	n := e.p.CG.Nodes[fn]
	var edges []*callgraph.Edge
	if n != nil {
		for _, ed := range n.In {
			if ed.Site != nil && inModule(ed.Caller.Func) && ed.Caller.Func.Blocks != nil {
				edges = append(edges, ed)
			}
		}
	}
	exported := fn.Object() != nil && fn.Object().Exported() && fn.Signature.Recv() == nil
	if e.deadFn(fn) {
		e.ctxMemo[key] = nil
		return nil
	}
	if len(edges) == 0 || depth == 0 || exported {
		out = []*Ctx{{fn: fn, desc: "any caller"}}
		e.ctxMemo[key] = out
		return out
	}
	sort.Slice(edges, func(i, j int) bool {
		if edges[i].Caller.Func.String() != edges[j].Caller.Func.String() {
			return edges[i].Caller.Func.String() < edges[j].Caller.Func.String()
		}
		return edges[i].Site.Pos() < edges[j].Site.Pos()
	})
	seen := map[string]bool{}
	for _, ed := range edges {
		caller := ed.Caller.Func
		site := ed.Site
		nd, nh := depth-1, hops
		if caller.Synthetic != "" {
			nd = depth // bound-method wrappers and thunks do not count as a level
		} else if hops < 2 && e.passThrough(site) {
			nd, nh = depth, hops+1
		} else if e.p.isErrCtor(fn) {
			nd = depth // an error-constructor helper stands for the Errorf at its call site
		}
		for _, cc := range e.contextsH(caller, nd, nh) {
			if !e.feasible(site.Block(), cc) {
				continue
			}
			if site.Common().StaticCallee() == nil {
				fv := e.evalAt(site.Common().Value, cc, site.Block())
				if fv.kind == "funcs" && !fv.Top && !e.funcsContain(fv.Funcs, fn) {
					continue
				}
			}
			c := &Ctx{fn: fn, bind: map[*ssa.Parameter]*AV{}}
			var sig []string
			for pi, q := range fn.Params {
				a := argForParam(site.Common(), pi)
				if a == nil {
					continue
				}
				av := e.evalAt(a, cc, site.Block())
				c.bind[q] = av
				sig = append(sig, q.Name()+"="+av.String(e.p))
			}
			c.desc = fmt.Sprintf("%s at %s", fnName(caller), e.p.pos(site.Pos()))
			k := fnName(caller) + "|" + strings.Join(sig, ";")
			if seen[k] {
				continue
			}
			seen[k] = true
			out = append(out, c)
			if len(out) > 400 {
				break
			}
		}
	}
	e.ctxMemo[key] = out
	return out
}

// blockFeasibleAnywhere: returns the contexts under which b is feasible.
func (e *exh) feasibleContexts(b *ssa.BasicBlock) []*Ctx {
	var out []*Ctx
	for _, c := range e.contexts(b.Parent(), e.depthCap) {
		if e.feasible(b, c) {
			out = append(out, c)
		}
	}
	return out
}

// edgeOwn: number of leading facts of realFacts(edgeFacts(p, i)) that come from p's own
// branch (0 or 1).
func edgeOwn(p *ssa.BasicBlock) int {
	if _, ok := p.Instrs[len(p.Instrs)-1].(*ssa.If); ok && len(p.Succs) == 2 && p.Succs[0] != p.Succs[1] {
		return 1
	}
	return 0
}

// deadFn: an unexported, non-synthetic function of the module that no
// function of the module calls or takes the value of (only tests use it). It
// is not part of the program the properties speak about.
func (e *exh) deadFn(fn *ssa.Function) bool {
	if d, ok := e.deadMemo[fn]; ok {
		return d
	}
	if e.deadMemo == nil {
		e.deadMemo = map[*ssa.Function]bool{}
	}
	d := false
	if fn.Synthetic == "" && fn.Parent() == nil && fn.Object() != nil && !fn.Object().Exported() && fn.Name() != "init" && fn.Name() != "main" {
		d = true
		if n := e.p.CG.Nodes[fn]; n != nil {
			for _, ed := range n.In {
				if ed.Caller.Func != fn {
					d = false
				}
			}
		}
		if d {
			// value taken anywhere in the module?
			for g := range e.p.AllFns {
				if !inModule(g) || g == fn {
					continue
				}
				for _, b := range g.Blocks {
					for _, ins := range b.Instrs {
						for _, op := range ins.Operands(nil) {
							if *op == ssa.Value(fn) {
								d = false
							}
						}
					}
				}
			}
		}
	}
	e.deadMemo[fn] = d
	return d
}
