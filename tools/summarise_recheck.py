#!/usr/bin/env python3
"""Summarise tools/recheck_seeds.sh output: per seed, which properties' checks report it."""
import json, os, re, sys
d = sys.argv[1] if len(sys.argv) > 1 else "/tmp/seed-recheck"
kf = json.load(open("/verif/known_findings.json"))
known = {(f["property"], f["rule"], f["key"]) for f in kf["findings"]}
rows = []
for f in sorted(os.listdir(d)):
    if not f.endswith(".txt"):
        continue
    sid = f[:-4]
    own = sid.split("-")[0]
    by = {}
    for ln in open(os.path.join(d, f), errors="replace"):
        m = re.match(r'(C\d+) VIOLATION rule=(\S+) key="((?:[^"\\]|\\.)*)"', ln)
        if not m:
            m2 = re.match(r'(C\d+) (ANALYSIS-FAILED|UNDECIDED|panic)', ln)
            if m2:
                by.setdefault(m2.group(1), set()).add(m2.group(2))
            continue
        pr, rule, key = m.group(1), m.group(2), m.group(3).replace('\\"', '"')
        if (pr, rule, key) in known:
            continue
        by.setdefault(pr, set()).add(rule)
    status = "OWN" if own in by else ("other" if by else "MISSED")
    rows.append((sid, status, {k: sorted(v) for k, v in sorted(by.items())}))
for sid, st, by in rows:
    print(f"{sid:7} {st:7} " + "; ".join(f"{k}:{','.join(v)}" for k, v in by.items()))
json.dump([{"seed": s, "status": st, "caught_by": by} for s, st, by in rows], open(os.path.join(d, "summary.json"), "w"), indent=1)
