#!/bin/bash
# Checker-only pass over seeded changes: applies each patch to a scratch copy of
# /repo (outside /repo and /verif, removed afterwards) and runs every property's
# rules on it. usage: recheck_seeds.sh <root with <ID>/<v>/patch.diff | seeded dir> <outdir> [jobs]
root=${1:-/verif/seeded}; out=${2:-/tmp/seed-recheck}; jobs=${3:-4}
mkdir -p "$out"
export GOFLAGS=-mod=mod GOPROXY=off GOSUMDB=off GOTOOLCHAIN=local; unset GOWORK
one() {
  d=$1; out=$2
  name=$(echo "$d" | sed -E 's#.*/(C[0-9]+)[/-]([a-z])/?$#\1-\2#')
  ws=$(mktemp -d /tmp/recheck-XXXXXX)
  rsync -a --exclude .git /repo/ "$ws/"
  if ! (cd "$ws" && git apply --whitespace=nowarn "$d/patch.diff" 2>/dev/null); then echo "PATCH DOES NOT APPLY" > "$out/$name.txt"; rm -rf "$ws"; return; fi
  : > "$out/$name.txt"
  for i in $(seq -w 1 20); do
    timeout 600 /verif/bin/sqljsonlint -prop C$i -repo "$ws" -verif /tmp/vtmp 2>&1 | grep -E '^(VIOLATION rule|UNDECIDED|ANALYSIS-FAILED|panic|goroutine )' | sed "s/^/C$i /" | cut -c1-330 >> "$out/$name.txt"
  done
  rm -rf "$ws"
  echo "rechecked $name"
}
export -f one
ls -d "$root"/C??/? "$root"/C??-? 2>/dev/null | xargs -P "$jobs" -I{} bash -c 'one {} '"$out"
