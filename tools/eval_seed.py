#!/usr/bin/env python3
"""Confirm a seeded change and run every property's rules against it.

usage: eval_seed.py <dir with patch.diff + demo_test.go> <out.json> [props...]

Steps (all in a scratch worktree of /repo under /tmp, removed afterwards):
  1. the patch applies to /repo HEAD and the tree builds;
  2. the unedited suite passes with the patch;
  3. the demonstration fails with the patch and passes without it;
  4. each property's rules are run on the patched tree (checker in control
     mode, no overlay); violations that are known findings are dropped.
Nothing is written to /repo.
"""
import json, os, re, subprocess, sys, shutil, tempfile

ENV = dict(os.environ, GOFLAGS="-mod=mod", GOPROXY="off", GOSUMDB="off", GOTOOLCHAIN="local")
ENV.pop("GOWORK", None)
ALL = ["C%02d" % i for i in range(1, 21)]


def run(cmd, cwd=None, timeout=900):
    p = subprocess.run(cmd, cwd=cwd, env=ENV, capture_output=True, text=True, timeout=timeout)
    return p.returncode, (p.stdout + p.stderr)


def main():
    d, outp = sys.argv[1], sys.argv[2]
    props = sys.argv[3:] or ALL
    res = {"dir": d}
    ws = tempfile.mkdtemp(prefix="seedws-", dir="/tmp")
    os.rmdir(ws)
    rc, o = run(["git", "-C", "/repo", "worktree", "add", "-q", "--detach", ws, "HEAD"])
    if rc != 0:
        res["error"] = "worktree: " + o
        json.dump(res, open(outp, "w"), indent=1)
        return
    try:
        patch = os.path.join(d, "patch.diff")
        rc, o = run(["git", "apply", "--whitespace=nowarn", patch], cwd=ws)
        res["applies"] = rc == 0
        if rc != 0:
            res["error"] = "patch does not apply to HEAD: " + o[:300]
            return
        rc, o = run(["go", "build", "./..."], cwd=ws)
        res["builds"] = rc == 0
        if rc != 0:
            res["error"] = o[:400]
            return
        rc, o = run(["go", "test", "-vet=off", "-count=1", "./..."], cwd=ws)
        res["suite_green_with_patch"] = rc == 0
        if rc != 0:
            res["suite_output"] = o[-600:]
        # demo
        demo = os.path.join(d, "demo_test.go")
        if os.path.exists(demo):
            src = open(demo).read()
            m = re.search(r"^package\s+(\w+)", src, re.M)
            pkg = m.group(1) if m else "path_test"
            base = pkg[:-5] if pkg.endswith("_test") else pkg
            sub = {"path": "path", "exec": "path/exec", "parser": "path/parser", "ast": "path/ast", "types": "path/types"}.get(base, "path")
            tests = re.findall(r"^func (Test\w+)\(", src, re.M)
            dst = os.path.join(ws, sub, "zz_seed_demo_test.go")
            shutil.copy(demo, dst)
            pat = "^(" + "|".join(tests) + ")$"
            race = ["-race"] if os.environ.get("SEED_RACE") == "1" or "-race" in open(os.path.join(d, "README.md")).read() else []
            res["demo_race"] = bool(race)
            rc, o = run(["go", "test", "-vet=off", "-count=1"] + race + ["./" + sub, "-run", pat], cwd=ws)
            res["demo_fails_with_patch"] = rc != 0
            res["demo_tests"] = tests
            res["demo_dir"] = sub
            if rc == 0:
                res["demo_output_with_patch"] = o[-300:]
            os.remove(dst)
            # without the patch
            run(["git", "apply", "-R", "--whitespace=nowarn", patch], cwd=ws)
            shutil.copy(demo, dst)
            rc, o = run(["go", "test", "-vet=off", "-count=1"] + race + ["./" + sub, "-run", pat], cwd=ws)
            res["demo_passes_without_patch"] = rc == 0
            if rc != 0:
                res["demo_output_without_patch"] = o[-400:]
            os.remove(dst)
            run(["git", "apply", "--whitespace=nowarn", patch], cwd=ws)
        else:
            res["demo"] = "no demo_test.go"
        # checker
        kf = json.load(open("/verif/known_findings.json"))
        def is_known(pr, rule, key):
            return any(f["rule"] == rule and f["property"] in (pr, "*") and (f["key"] == key or (f.get("key_re") and re.match(f["key_re"], key))) for f in kf["findings"])
        ctl = os.path.join(ws, ".empty_control.json")
        open(ctl, "w").write('[{"name":"seed","subs":[],"expect":[]}]')
        caught = {}
        if os.environ.get("SEED_CHECKER") == "0":
            props = []
        for pr in props:
            rc, o = run(["/verif/bin/sqljsonlint", "-mode", "control", "-prop", pr, "-control", ctl, "-index", "0", "-repo", ws, "-verif", "/verif"], timeout=600)
            try:
                r = json.loads(o[o.index("{"):])
            except Exception:
                caught[pr] = ["checker output unparsable: " + o[:200]]
                continue
            if r.get("load_error"):
                caught[pr] = ["analysis failed: " + r["load_error"][:200]]
                continue
            vs = [v["rule"] + ": " + v["key"] for v in r.get("violations", []) if not is_known(pr, v["rule"], v["key"])]
            if vs:
                caught[pr] = sorted(set(vs))
        os.remove(ctl)
        res["caught_by"] = caught
    finally:
        run(["git", "-C", "/repo", "worktree", "remove", "--force", ws])
        shutil.rmtree(ws, ignore_errors=True)
        json.dump(res, open(outp, "w"), indent=1)


if __name__ == "__main__":
    main()
