import json,re,sys
kf=json.load(open('/verif/known_findings.json'))
def known(pr,rule,key):
    for f in kf['findings']:
        if f['rule']!=rule or f['property'] not in (pr,'*'): continue
        if f.get('key')==key or (f.get('key_re') and re.match(f['key_re'],key)): return True
    return False
for fn in sys.argv[1:]:
    print('==',fn.split('/')[-1])
    seen=set()
    for ln in open(fn,errors='replace'):
        m=re.match(r'(C\d+) VIOLATION rule=(\S+) key="((?:[^"\\]|\\.)*)"(.*)',ln)
        if m:
            pr,rule,key,rest=m.groups(); key=key.replace('\\"','"')
            if known(pr,rule,key): continue
            if (rule,key) in seen: continue
            seen.add((rule,key)); print('  ',rule,'|',key[:110],'|',rest[:330]); continue
        m=re.match(r'(C\d+) (UNDECIDED|ANALYSIS-FAILED|panic)(.*)',ln)
        if m and m.group(3)[:80] not in seen:
            seen.add(m.group(3)[:80]); print('  ',m.group(2),m.group(3)[:300])
