#!/usr/bin/env python3
"""Build /verif/seeded/<ID>-<v>/ from the sub-agents' deliverables.

usage: import_seeds.py <seed-out> <seed-eval> <seed-recheck>

A change is kept only if its confirmation record (tools/eval_seed.py, run by
the main session in a scratch worktree) says: the patch applies to /repo HEAD,
the tree builds, the unedited suite is green with it, the demonstration fails
with it and passes without it. Writes patch.diff, demo_test.go, README.md (the
author's description) and meta.json, then seeded/INDEX.md.
"""
import json, os, re, shutil, sys

out_root, eval_root, recheck_root = sys.argv[1:4]
dst_root = "/verif/seeded"
os.makedirs(dst_root, exist_ok=True)
summary = {}
sp = os.path.join(recheck_root, "summary.json")
if os.path.exists(sp):
    for r in json.load(open(sp)):
        summary[r["seed"]] = r


def section(text, *heads):
    for h in heads:
        m = re.search(r"^##\s*" + h + r"[^\n]*\n(.*?)(?=^##\s|\Z)", text, re.M | re.S | re.I)
        if m:
            return re.sub(r"\s+", " ", m.group(1)).strip()
    return ""


rows = []
for pid in sorted(x for x in os.listdir(out_root) if os.path.isdir(os.path.join(out_root, x))):
    for v in sorted(os.listdir(os.path.join(out_root, pid))):
        d = os.path.join(out_root, pid, v)
        sid = f"{pid}-{v}"
        ev_p = os.path.join(eval_root, sid + ".json")
        if not (os.path.isfile(os.path.join(d, "patch.diff")) and os.path.isfile(ev_p)):
            continue
        ev = json.load(open(ev_p))
        confirmed = all(ev.get(k) for k in ("applies", "builds", "suite_green_with_patch", "demo_fails_with_patch", "demo_passes_without_patch"))
        if not confirmed:
            print("not kept (unconfirmed):", sid)
            continue
        dst = os.path.join(dst_root, sid)
        os.makedirs(dst, exist_ok=True)
        for f in ("patch.diff", "demo_test.go", "README.md"):
            if os.path.exists(os.path.join(d, f)):
                shutil.copy(os.path.join(d, f), os.path.join(dst, f))
        readme = open(os.path.join(d, "README.md")).read() if os.path.exists(os.path.join(d, "README.md")) else ""
        title = (re.search(r"^#\s*(.+)$", readme, re.M) or [None, sid])[1].strip()
        needs = section(readme, "What is needed", "What it needs")
        clause = section(readme, "Property clause broken", "Clause broken", "Clause of", "Which clause")
        race = " -race" if ev.get("demo_race") else ""
        sm = summary.get(sid, {})
        meta = {
            "property": pid,
            "name": sid,
            "title": title,
            "clause_broken": clause[:900],
            "needs_to_manifest": needs[:1500],
            "author": "fresh sub-agent given only the text of the property and a scratch git worktree of /repo",
            "confirmed_by_main_session": {
                "what_was_run": [
                    "git worktree add --detach <scratch> HEAD; git apply patch.diff",
                    "go build ./...",
                    "go test -vet=off -count=1 ./...   (unedited suite, with the patch)",
                    f"go test -vet=off -count=1{race} ./{ev.get('demo_dir','path')} -run '^({'|'.join(ev.get('demo_tests',[]))})$'   (demo copied next to the package; with the patch, then with the patch reverted)",
                    "sqljsonlint on the patched scratch copy, every property's rules (tools/recheck_seeds.sh)",
                ],
                "patch_applies_to_head": True,
                "builds": True,
                "suite_green_with_patch": True,
                "demo_fails_with_patch": True,
                "demo_passes_without_patch": True,
            },
            "status": sm.get("status", "not yet checked"),
            "caught_by": sm.get("caught_by", {}),
        }
        json.dump(meta, open(os.path.join(dst, "meta.json"), "w"), indent=1, ensure_ascii=False)
        rows.append(meta)

# the index covers every kept change, whichever run imported it
rows = []
for name in sorted(os.listdir(dst_root)):
    mp = os.path.join(dst_root, name, "meta.json")
    if os.path.isfile(mp):
        rows.append(json.load(open(mp)))
with open(os.path.join(dst_root, "INDEX.md"), "w") as f:
    f.write("# Seeded changes\n\n")
    f.write("Each change was written by a fresh sub-agent that saw only the text of one property and its own scratch worktree of /repo, "
            "compiles, keeps the unedited suite green, and comes with a demonstration that fails with the change and passes without it; "
            "each was confirmed by the main session (meta.json: what was run). None was ever committed to /repo.\n\n"
            "`own` = reported by the check of the property the change was written against; `other` = only by another property's check; "
            "`MISSED` = by none (the reason is given in DESIGN.md §8).\n\n")
    f.write("| change | what it does | needs, to manifest | result | reported by |\n|---|---|---|---|---|\n")
    for m in rows:
        cb = "; ".join(f"{k}: {', '.join(v)}" for k, v in m["caught_by"].items()) or "—"
        st = {"OWN": "own", "other": "other"}.get(m["status"], m["status"])
        f.write(f"| {m['name']} | {m['title'].replace('|','/')} | {m['needs_to_manifest'][:260].replace('|','/')} | {st} | {cb} |\n")
    n = len(rows)
    own = sum(1 for m in rows if m["status"] == "OWN")
    oth = sum(1 for m in rows if m["status"] == "other")
    f.write(f"\n{n} changes: {own} reported by their own property's check, {oth} only by another property's, {n-own-oth} by none.\n")
print(len(rows), "kept")
