#!/usr/bin/env python3
"""Summarise tools/check_patches.sh output for seeded changes (<ID>-<v>.txt)."""
import json, os, re, sys
d = sys.argv[1]
kf = json.load(open("/verif/known_findings.json"))
known = None

def is_known(kf, pr, rule, key):
    for f in kf["findings"]:
        if f["rule"] != rule or f["property"] not in (pr, "*"):
            continue
        if f["key"] == key or (f.get("key_re") and re.match(f["key_re"], key)):
            return True
    return False
rows = []
for f in sorted(os.listdir(d)):
    if not f.endswith(".txt"):
        continue
    sid = f[:-4]
    own = sid.split("-")[0]
    by = {}
    for ln in open(os.path.join(d, f), errors="replace"):
        m = re.match(r'(C\d+) VIOLATION rule=(\S+) key="((?:[^"\\]|\\.)*)"', ln)
        if m:
            pr, rule, key = m.group(1), m.group(2), m.group(3).replace('\\"', '"')
            if not is_known(kf, pr, rule, key):
                by.setdefault(pr, set()).add(rule)
            continue
        m2 = re.match(r"(C\d+) (ANALYSIS-FAILED|UNDECIDED|panic)", ln)
        if m2:
            by.setdefault(m2.group(1), set()).add(m2.group(2))
    st = "OWN" if own in by else ("other" if by else "MISSED")
    rows.append({"seed": sid, "status": st, "caught_by": {k: sorted(v) for k, v in sorted(by.items())}})
    print(f"{sid:7} {st:7} " + "; ".join(f"{k}:{','.join(sorted(v))}" for k, v in sorted(by.items()))[:220])
json.dump(rows, open(os.path.join(d, "summary.json"), "w"), indent=1)
