#!/bin/bash
# usage: eval_all_seeds.sh <root with <ID>/<variant>/patch.diff> <outdir>
root=${1:-/tmp/seed-out}; out=${2:-/tmp/seed-eval}; mkdir -p "$out"
for d in "$root"/C??/?; do
  [ -f "$d/patch.diff" ] || continue
  id=$(basename $(dirname "$d")); v=$(basename "$d")
  [ -f "$out/$id-$v.json" ] && continue
  python3 /verif/tools/eval_seed.py "$d" "$out/$id-$v.json"
  echo "done $id-$v"
done
