#!/usr/bin/env python3
"""List, per patch report of tools/check_patches.sh, the violations that are not known findings."""
import json, os, re, sys
d = sys.argv[1]
kf = json.load(open("/verif/known_findings.json"))
known = None

def is_known(kf, pr, rule, key):
    for f in kf["findings"]:
        if f["rule"] != rule or f["property"] not in (pr, "*"):
            continue
        if f["key"] == key or (f.get("key_re") and re.match(f["key_re"], key)):
            return True
    return False
for f in sorted(os.listdir(d)):
    if not f.endswith(".txt"):
        continue
    alarms, notes = [], []
    for ln in open(os.path.join(d, f), errors="replace"):
        m = re.match(r'(C\d+) VIOLATION rule=(\S+) key="((?:[^"\\]|\\.)*)"(.*)', ln)
        if m:
            pr, rule, key = m.group(1), m.group(2), m.group(3).replace('\\"', '"')
            if not is_known(kf, pr, rule, key):
                alarms.append(f"{pr} {rule}: {key}")
        elif ln.strip() and not ln.startswith("C"):
            notes.append(ln.strip()[:160])
        elif re.match(r"C\d+ (UNDECIDED|LOAD ERROR|ANALYSIS-FAILED|CHECKER-PROBLEM|panic|goroutine )", ln):
            alarms.append(ln.strip()[:200])
    print(f"{f[:-4]:12} {'clean' if not alarms and not notes else ''}")
    for n in notes[:3]:
        print("     note:", n)
    for a in sorted(set(alarms)):
        print("     ALARM:", a)
