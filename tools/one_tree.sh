#!/bin/bash
# usage: one_tree.sh <tree>  -> prints the alarms on one tree that are not known findings (BIN= selects the checker binary)
rm -rf /tmp/one; mkdir -p /tmp/one
${BIN:-/verif/bin/sqljsonlint} -mode all -repo "$1" 2>&1 | grep -E '^C[0-9]+ (VIOLATION rule|UNDECIDED|LOAD ERROR|ANALYSIS-FAILED|panic)|^(panic|goroutine )' | cut -c1-600 > /tmp/one/x.txt
python3 /verif/tools/summarise_patches.py /tmp/one | cut -c1-600
