#!/usr/bin/env python3
"""Print the per-change table of DESIGN.md §8 from seeded/*/meta.json and the
per-round tallies (stderr)."""
import json, os, re, sys
root = '/verif/seeded'
rows, stats = [], {}
rnd_of = {'a': 1, 'b': 1, 'c': 2, 'd': 2, 'e': 3, 'f': 3, 'g': 4, 'h': 4, 'i': 5, 'j': 5, 'k': 6, 'l': 6, 'm': 7, 'n': 7, 'o': 8, 'p': 8, 'q': 9, 'r': 9, 's': 10, 't': 10, 'u': 11, 'v': 11}
for d in sorted(os.listdir(root)):
    p = os.path.join(root, d, 'meta.json')
    if not os.path.exists(p):
        continue
    m = json.load(open(p))
    pid, v = m['property'], d.split('-')[1]
    cb = m.get('caught_by') or {}
    own = ', '.join(cb.get(pid, [])) or '—'
    also = ', '.join(k for k in sorted(cb) if k != pid) or '—'
    st = m.get('status')
    title = re.sub(r'^C\d\d\s*(/|seed)?\s*(change\s*)?[a-v]\s*[—:\-–]+\s*', '', m.get('title', '')).strip()[:95]
    if st == 'superseded':
        own = '(no longer applies: superseded by fix f2a8ddd)'
    elif st == 'MISSED':
        own = '**not caught**'
    elif st == 'other':
        own = '— (only under other properties)'
    rows.append(f"| {d} | {title} | {own} | {also} |")
    s = stats.setdefault(rnd_of[v], {'own': 0, 'other': 0, 'missed': 0, 'superseded': 0})
    s[{'OWN': 'own', 'other': 'other', 'MISSED': 'missed', 'superseded': 'superseded'}[st]] += 1
print("| change | what it does | rules of its own property that report it | also reported under |\n|---|---|---|---|")
print("\n".join(rows))
print(stats, file=sys.stderr)
