#!/usr/bin/env python3
"""Rewrite the 'decided:' rule lists of DESIGN.md §4 from the checker's own
property specifications (bin/sqljsonlint -mode manifest), keeping each
property's hand-written 'Not decided:' text. usage: sync_design_rules.py"""
import json, re, subprocess, textwrap
m = json.loads(subprocess.check_output(['/verif/bin/sqljsonlint', '-mode', 'manifest']))
rules = {}
for c in m['checks']:
    t = c['technique']
    rules[c['property_id']] = re.findall(r'R-[A-Z0-9-]+', t.split(' over ')[0])
p = '/verif/DESIGN.md'
s = open(p).read()
start = s.index('## 4. Per property')
end = s.index('## 5. ')
sec = s[start:end]
def repl(mo):
    pid, body = mo.group(1), mo.group(2)
    nd = ''
    body = ' '.join(body.split())
    i = body.find('Not decided:')
    if i >= 0:
        nd = ' ' + body[i:]
    else:
        # keep trailing remarks after the first full stop following the list
        pass
    txt = '* **%s** decided: %s.%s' % (pid, ', '.join(rules[pid]), nd)
    return '\n'.join(textwrap.wrap(txt, 78, subsequent_indent='  ')) + '\n'
sec2 = re.sub(r'\* \*\*(C\d\d)\*\* decided:(.*?)\n(?=\* \*\*C\d\d|\n|$)', repl, sec, flags=re.S)
open(p, 'w').write(s[:start] + sec2 + s[end:])
