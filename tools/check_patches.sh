#!/bin/bash
# Run every property's rules on each patch found below <root> (any depth:
# <root>/**/patch.diff), each applied to its own scratch copy of /repo outside
# /repo and /verif (removed afterwards). One report file per patch in <outdir>.
# Used for behaviour-preserving refactorings: every reported violation that is
# not a known finding is a false alarm to investigate.
# /tmp/vtmp should hold a copy of known_findings.json and a link to /verif/controls so that the
# positive controls run against the patched tree too (a control that no longer fires is reported
# as CHECKER-PROBLEM: a false alarm of the checker on a behaviour-preserving patch).
# FAST=1 runs all properties in one process (mode all), without controls.
# usage: check_patches.sh <root> <outdir> [jobs] [with-suite]
root=$1; out=$2; jobs=${3:-3}; suite=${4:-}
mkdir -p "$out"
export GOFLAGS=-mod=mod GOPROXY=off GOSUMDB=off GOTOOLCHAIN=local; unset GOWORK
one() {
  pf=$1; out=$2; root=$3; suite=$4
  name=$(dirname "${pf#$root/}" | tr '/' '-')
  ws=$(mktemp -d /tmp/chkp-XXXXXX)
  rsync -a --exclude .git /repo/ "$ws/"
  rep="$out/$name.txt"; : > "$rep"
  if ! (cd "$ws" && git apply --whitespace=nowarn "$pf" 2>>"$rep"); then echo "PATCH DOES NOT APPLY" >> "$rep"; rm -rf "$ws"; return; fi
  if ! (cd "$ws" && go build ./... >>"$rep" 2>&1); then echo "BUILD FAILS" >> "$rep"; rm -rf "$ws"; return; fi
  if [ -n "$suite" ]; then (cd "$ws" && go test -vet=off -count=1 ./... >/dev/null 2>&1) || echo "SUITE FAILS" >> "$rep"; fi
  if [ -n "$FAST" ]; then
    # one process: every rule once, violations of all properties (no controls, no evidence)
    timeout 1200 ${BIN:-/verif/bin/sqljsonlint} -mode all -repo "$ws" 2>&1 | grep -E '^C[0-9]+ (VIOLATION rule|UNDECIDED|LOAD ERROR|ANALYSIS-FAILED|panic)|^(panic|goroutine )' | cut -c1-400 >> "$rep"
    rm -rf "$ws"; echo "checked $name"; return
  fi
  for i in $(seq -w 1 20); do
    timeout 600 ${BIN:-/verif/bin/sqljsonlint} -prop C$i -repo "$ws" -verif ${VTMP:-/tmp/vtmp} 2>&1 | grep -E '^(VIOLATION rule|UNDECIDED|LOAD ERROR|ANALYSIS-FAILED|CHECKER-PROBLEM|panic|goroutine )' | sed "s/^/C$i /" | cut -c1-400 >> "$rep"
  done
  rm -rf "$ws"
  echo "checked $name"
}
export -f one; export BIN FAST VTMP
find "$root" -name patch.diff | sort | xargs -P "$jobs" -I{} bash -c 'one {} '"$out $root $suite"
