#!/usr/bin/env python3
"""Validate MANIFEST.json and evidence/*.json against the given schemas."""
import json, sys, glob
import jsonschema
ms = json.load(open('/root/.vp/MANIFEST.schema.json'))
es = json.load(open('/root/.vp/EVIDENCE.schema.json'))
m = json.load(open('/verif/MANIFEST.json'))
jsonschema.validate(m, ms)
ok = True
claimed = {c['property_id'] for c in m['checks']}
na = {c['property_id'] for c in m.get('not_applicable', [])}
allp = {json.loads(l)['id'] for l in open('/verif/properties.jsonl')}
assert claimed | na == allp and not (claimed & na), (claimed, na)
for f in sorted(glob.glob('/verif/evidence/*.json')):
    e = json.load(open(f))
    jsonschema.validate(e, es)
    print(f, 'ok', e['tier'], e['coverage'].get('obligations'), 'violations', e.get('violations'))
print('manifest ok:', len(claimed), 'claimed,', len(na), 'not applicable')
